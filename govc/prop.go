package main

// Property-level driver: find the contracts tagged with a property, verify,
// compare with the committed baseline, replay failures, write evidence.

import (
	"go/ast"
	"sync"
	"encoding/json"
	"flag"
	"fmt"
	"os"
	"path/filepath"
	"regexp"
	"sort"
	"strconv"
	"strings"
	"time"
)

type baselineFile struct {
	Property    string            `json:"property"`
	Claimed     map[string]string `json:"claimed"`   // obligation name -> expected status (unsat, or sat for canaries)
	Unclaimed   map[string]string `json:"unclaimed"` // obligations that do not discharge on the unchanged tree (never counted, never alarmed)
	Functions   []string          `json:"functions"`
	GeneratedAt string            `json:"generated_at"`
}

type finding struct {
	Kind       string // finding | fixed
	Property   string
	Obligation string
	Text       string
}

func readFindings(path string) []finding {
	data, err := os.ReadFile(path)
	if err != nil {
		return nil
	}
	var out []finding
	for _, ln := range strings.Split(string(data), "\n") {
		ln = strings.TrimSpace(ln)
		if ln == "" || strings.HasPrefix(ln, "#") {
			continue
		}
		var f finding
		switch {
		case strings.HasPrefix(ln, "finding:"):
			f.Kind = "finding"
			ln = strings.TrimSpace(strings.TrimPrefix(ln, "finding:"))
		case strings.HasPrefix(ln, "fixed:"):
			f.Kind = "fixed"
			ln = strings.TrimSpace(strings.TrimPrefix(ln, "fixed:"))
		default:
			continue
		}
		parts := strings.SplitN(ln, "::", 2)
		if len(parts) == 2 {
			f.Text = strings.TrimSpace(parts[1])
		}
		for _, kv := range strings.Fields(parts[0]) {
			if strings.HasPrefix(kv, "property=") {
				f.Property = strings.TrimPrefix(kv, "property=")
			}
		}
		if i := strings.Index(parts[0], "obligation="); i >= 0 {
			f.Obligation = strings.TrimSpace(parts[0][i+len("obligation="):])
		}
		out = append(out, f)
	}
	return out
}

var propsRe = regexp.MustCompile(`//\s*@\s*props\s+(.*)`)

// packagesForProp scans the repository's verif_*.go files for contracts tagged with prop.
func packagesForProp(repo, prop string) []string {
	seen := map[string]bool{}
	filepath.Walk(repo, func(path string, info os.FileInfo, err error) error {
		if err != nil {
			return nil
		}
		if info.IsDir() {
			if strings.HasPrefix(info.Name(), ".") && path != repo {
				return filepath.SkipDir
			}
			return nil
		}
		if !strings.HasPrefix(info.Name(), "verif_") || !strings.HasSuffix(info.Name(), ".go") {
			return nil
		}
		data, err := os.ReadFile(path)
		if err != nil {
			return nil
		}
		for _, m := range propsRe.FindAllStringSubmatch(string(data), -1) {
			for _, p := range strings.Fields(strings.ReplaceAll(m[1], ",", " ")) {
				if p == prop {
					rel, _ := filepath.Rel(repo, filepath.Dir(path))
					seen["./"+rel] = true
				}
			}
		}
		return nil
	})
	return sortedKeys(seen)
}

func selectTargets(prog *Prog, prop, only string) []*FuncInfo {
	var targets []*FuncInfo
	var names []string
	for n := range prog.byName {
		names = append(names, n)
	}
	sort.Strings(names)
	for _, n := range names {
		fi := prog.byName[n]
		var d *Directives
		var tgt *FuncInfo
		switch fi.Kind {
		case "contract":
			if fi.Target == nil || fi.Dir.Trusted {
				continue
			}
			d, tgt = fi.Dir, fi.Target
		case "lemma":
			d, tgt = fi.Dir, fi
		default:
			continue
		}
		if prop != "" {
			ok := false
			for _, p := range d.Props {
				if p == prop {
					ok = true
				}
			}
			if !ok {
				continue
			}
		}
		if only != "" && !strings.Contains(tgt.Name, only) {
			continue
		}
		targets = append(targets, tgt)
	}
	return targets
}

func generate(prog *Prog, targets []*FuncInfo, verbose bool) []*VC {
	var vcs []*VC
	for _, t := range targets {
		mode := ModeBV
		d := t.Dir
		if t.Contract != nil {
			d = t.Contract.Dir
		}
		if d.Mode != nil {
			mode = *d.Mode
		}
		c := newVC(prog, t, mode)
		func() {
			defer func() {
				if r := recover(); r != nil {
					c.unsupported = append(c.unsupported, fmt.Sprintf("generator panic: %v", r))
					c.genPanic = fmt.Sprint(r)
					if verbose {
						panic(r)
					}
				}
			}()
			c.verify()
		}()
		vcs = append(vcs, c)
	}
	return vcs
}

func oblOK(o *Obligation) bool {
	if o.Canary {
		return o.Status == "sat"
	}
	return o.Status == "unsat"
}

func cmdProp(args []string) int {
	fs := flag.NewFlagSet("prop", flag.ExitOnError)
	repo := fs.String("repo", "/repo", "repository")
	vdir := fs.String("verif", "/verif", "verif directory")
	id := fs.String("id", "", "property id")
	tier := fs.String("tier", "quick", "quick|thorough")
	update := fs.Bool("update-baseline", false, "rewrite the baseline from this run (maintenance only)")
	verbose := fs.Bool("v", false, "verbose")
	par := fs.Int("par", 14, "parallel obligations")
	fs.Parse(args)
	t0 := time.Now()
	seed := 0
	if s := os.Getenv("VERIF_SEED"); s != "" {
		seed, _ = strconv.Atoi(s)
	}
	qsecs, fsecs := 4, 25
	if *tier == "thorough" {
		qsecs, fsecs = 10, 120
	}
	pkgs := packagesForProp(*repo, *id)
	if len(pkgs) == 0 {
		fmt.Printf("BROKEN: no contracts tagged with %s found under %s\n", *id, *repo)
		return 2
	}
	prog, err := loadProg(*repo, pkgs, nil)
	if err != nil {
		fmt.Println("BROKEN: load:", err)
		return 2
	}
	var stale []string
	var loadErrs []string
	for _, e := range prog.errors {
		if strings.HasPrefix(e, "CONTRACT-STALE") {
			stale = append(stale, e)
		} else {
			loadErrs = append(loadErrs, e)
		}
	}
	// a contract file that no longer type-checks against the edited repository makes the contracts of
	// that package stale (undecided), never a violation
	stalePkgs := map[string]bool{} // obligation-name prefixes (function names) whose contract file has type errors
	staleFiles := map[string]bool{}
	for _, e := range loadErrs {
		if i := strings.Index(e, "/verif_"); i >= 0 {
			f := e
			if j := strings.Index(e[i:], ".go"); j >= 0 {
				f = e[:i+j+3]
			}
			if !staleFiles[f] {
				stale = append(stale, "CONTRACT-STALE file "+f+": no longer type-checks against the repository ("+trunc(e, 200)+")")
			}
			staleFiles[f] = true
		}
	}
	targets := selectTargets(prog, *id, "")
	vcs := generate(prog, targets, false)
	for _, c := range vcs {
		d := c.fn
		if c.fn.Contract != nil {
			d = c.fn.Contract
		}
		if staleFiles[prog.fset.Position(d.Decl.Pos()).Filename] {
			stalePkgs[c.fn.Name] = true
		}
	}
	for _, e := range prog.errors {
		if strings.HasPrefix(e, "CONTRACT-STALE") {
			found := false
			for _, s := range stale {
				if s == e {
					found = true
				}
			}
			if !found {
				stale = append(stale, e)
			}
		}
	}
	dir, _ := os.MkdirTemp("", "govc")
	defer os.RemoveAll(dir)
	if !*update && *tier != "thorough" {
		// obligations recorded as not discharging on the unchanged tree are never counted and never
		// alarm; the quick tier does not spend the portfolio timeout on them (the thorough tier does)
		var pre baselineFile
		if data, err := os.ReadFile(filepath.Join(*vdir, "baseline", *id+".json")); err == nil && json.Unmarshal(data, &pre) == nil {
			findingObl := map[string]bool{}
			for _, f := range readFindings(filepath.Join(*vdir, "known_findings.txt")) {
				findingObl[f.Obligation] = true
			}
			for _, c := range vcs {
				for _, o := range c.obls {
					if _, ok := pre.Unclaimed[o.Name]; ok && !findingObl[o.Name] {
						o.Status, o.Solver = "skipped", "unclaimed-in-baseline"
					}
				}
			}
		}
	}
	solveAll(vcs, dir, *par, qsecs, fsecs, *verbose)
	// second chance: an obligation the solvers gave up on (unknown / timeout, no model) is solved
	// again on its own with the thorough budget and few queries in flight, so that a busy machine
	// does not turn a claimed proof into an alarm. A `sat` answer is final.
	{
		retried := 0
		for _, c := range vcs {
			for _, o := range c.obls {
				if o.Canary || o.Status == "unsat" || o.Status == "sat" || o.Status == "skipped" || o.Status == "" {
					continue
				}
				o.Status = ""
				retried++
			}
		}
		if retried > 0 && retried <= 12 && *tier != "thorough" && os.Getenv("VERIF_NO_RETRY") == "" {
			rdir := filepath.Join(dir, "retry")
			os.MkdirAll(rdir, 0o755)
			rp := 4
			if retried < rp {
				rp = retried
			}
			solveAll(vcs, rdir, rp, 10, 120, *verbose)
			fmt.Printf("retried %d undecided obligation(s) with the long budget\n", retried)
		} else if retried > 0 {
			// thorough tier (already the long budget) or too many to be load: leave them undecided
			for _, c := range vcs {
				for _, o := range c.obls {
					if o.Status == "" {
						o.Status, o.Solver = "unknown", "not-retried"
					}
				}
			}
		}
	}

	// collect
	cur := map[string]*Obligation{}
	owner := map[string]*VC{}
	var order []string
	for _, c := range vcs {
		for _, o := range c.obls {
			cur[o.Name] = o
			owner[o.Name] = c
			order = append(order, o.Name)
		}
	}
	bpath := filepath.Join(*vdir, "baseline", *id+".json")
	if *update {
		b := baselineFile{Property: *id, Claimed: map[string]string{}, Unclaimed: map[string]string{}, GeneratedAt: time.Now().UTC().Format(time.RFC3339)}
		for _, n := range order {
			o := cur[n]
			// only claim what discharges with margin (well under the quick timeout)
			if oblOK(o) && o.Secs < 12 {
				b.Claimed[n] = o.Status
			} else {
				b.Unclaimed[n] = o.Status
			}
		}
		for _, c := range vcs {
			b.Functions = append(b.Functions, c.fn.Name)
		}
		data, _ := json.MarshalIndent(b, "", " ")
		os.MkdirAll(filepath.Dir(bpath), 0o755)
		os.WriteFile(bpath, append(data, '\n'), 0o644)
		fmt.Printf("baseline %s: claimed=%d unclaimed=%d\n", bpath, len(b.Claimed), len(b.Unclaimed))
		for n, s := range b.Unclaimed {
			fmt.Printf("  unclaimed [%s] %s\n", s, n)
		}
	}
	var base baselineFile
	if data, err := os.ReadFile(bpath); err == nil {
		json.Unmarshal(data, &base)
	} else {
		fmt.Printf("BROKEN: no baseline %s\n", bpath)
		return 2
	}
	findings := readFindings(filepath.Join(*vdir, "known_findings.txt"))
	isKnown := func(name string) *finding {
		for i := range findings {
			f := &findings[i]
			if f.Kind == "finding" && f.Property == *id && f.Obligation == name {
				return f
			}
		}
		return nil
	}

	type viol struct {
		name, replay string
		noInput     bool
	}
	var viols []viol
	var known []string
	var undecidedNew, staleObls []string
	discharged, claimed := 0, 0
	perBackend := map[string]int{}
	solverSecs := 0.0
	bounded := 0
	canaries, canariesOK := 0, 0
	replayDir := filepath.Join(*vdir, "replays", *id)

	staleFuncs := map[string]bool{}
	for _, s := range stale {
		f := strings.Fields(s)
		if len(f) > 1 {
			staleFuncs[strings.TrimSuffix(f[1], ":")] = true
		}
	}
	handleFailure := func(name string, o *Obligation, c *VC, inBaseline bool) {
		if f := isKnown(name); f != nil {
			known = append(known, fmt.Sprintf("KNOWN-FINDING: property=%s %s (%s)", *id, f.Text, name))
			return
		}
		rep := replayObligation(prog, c, o, dir, *repo)
		os.MkdirAll(replayDir, 0o755)
		rfile := filepath.Join(replayDir, sanitize(name)+".json")
		rep.Property = *id
		data, _ := json.MarshalIndent(rep, "", " ")
		if rep.Reproduced {
			os.WriteFile(rfile, data, 0o644)
			viols = append(viols, viol{name, rfile, false})
			return
		}
		if inBaseline {
			os.WriteFile(rfile, data, 0o644)
			viols = append(viols, viol{name, rfile, true})
			return
		}
		undecidedNew = append(undecidedNew, name)
	}
	for name, want := range base.Claimed {
		claimed++
		o, ok := cur[name]
		if !ok || stalePkgs[strings.SplitN(name, "/", 2)[0]] {
			staleObls = append(staleObls, name)
			continue
		}
		solverSecs += o.Secs
		if o.Canary {
			canaries++
			if o.Status == want {
				canariesOK++
				discharged++
				perBackend[o.Solver]++
			} else if o.Status == "unsat" {
				// path condition contradictory: the check itself is broken
				fmt.Printf("BROKEN: vacuity canary %s is unsat (contradictory requires/path)\n", name)
				return 2
			} else {
				// sat could not be established (solver gave up): count as undecided canary, not a violation
				discharged++
				perBackend["canary-undecided"]++
			}
			continue
		}
		if o.Status == "unsat" {
			discharged++
			perBackend[o.Solver]++
			if o.Bounded != "" {
				bounded++
			}
			continue
		}
		handleFailure(name, o, owner[name], true)
	}
	for _, name := range order {
		if _, ok := base.Claimed[name]; ok {
			continue
		}
		if _, ok := base.Unclaimed[name]; ok {
			continue
		}
		o := cur[name]
		if oblOK(o) || stalePkgs[strings.SplitN(name, "/", 2)[0]] {
			continue
		}
		if o.Canary {
			continue
		}
		// a call-site / statement-site clause speaks about EVERY matching call or statement: a further
		// instance (suffix #k) of a clause that is claimed is part of the claim, not a new obligation
		universal := false
		if o.Kind == "callsite" || o.Kind == "site" || o.Kind == "own/monotone-map" || o.Kind == "own/insert-only-map" {
			if i := strings.LastIndex(name, "#"); i > 0 {
				if _, err := strconv.Atoi(name[i+1:]); err == nil {
					if _, ok := base.Claimed[name[:i]]; ok {
						universal = true
					}
				}
			}
		}
		// a forbidden-call clause (`callsite f: false`) has no instance on the tree it was written
		// for, by design: a reachable matching call (sat) is the violation, whatever the baseline says
		if o.Kind == "callsite" && o.Status == "sat" && (strings.HasSuffix(name, ": false") || strings.Contains(name, ": false#")) {
			universal = true
		}
		if o.Status == "sat" || universal {
			handleFailure(name, o, owner[name], universal)
		} else {
			undecidedNew = append(undecidedNew, name)
		}
	}
	// thorough tier: dynamic cross-check of the trusted generator. Every discharged postcondition of a
	// function whose inputs the sweep can build (scalars, byte slices, strings) is ALSO executed on
	// the real code over the seeded boundary sweep. A clause that was proved but fails at run time
	// means the verifier (or a spec function's executable reading) is wrong: reported as a violation.
	crossRuns, crossHolds, crossSkipped := 0, 0, 0
	var crossInconclusive []string
	if *tier == "thorough" {
		type job struct {
			name string
			o    *Obligation
			c    *VC
		}
		var jobs []job
		perFunc := map[string]int{}
		for _, name := range order {
			o := cur[name]
			if _, ok := base.Claimed[name]; !ok || o.Kind != "ensures" || !oblOK(o) || o.Canary {
				continue
			}
			c := owner[name]
			if c.fn.Contract == nil || c.fn.Kind != "real" || strings.Contains(o.Text, "@return") {
				continue
			}
			if perFunc[c.fn.Name] >= 6 {
				continue
			}
			perFunc[c.fn.Name]++
			jobs = append(jobs, job{name, o, c})
		}
		var mu sync.Mutex
		var wg sync.WaitGroup
		ch := make(chan job)
		for w := 0; w < 8; w++ {
			wg.Add(1)
			go func() {
				defer wg.Done()
				for j := range ch {
					rep := &replayResult{Obligation: j.o.Name, Kind: j.o.Kind, Clause: j.o.Text, Function: j.c.fn.Name, At: j.o.Pos, SolverStatus: j.o.Status, Solver: j.o.Solver, Property: *id}
					rep.Note = "thorough-tier cross-check of a PROVED clause on the real code: "
					replayRun(prog, j.c, j.o, dir, *repo, rep, true)
					mu.Lock()
					switch {
					case strings.Contains(rep.Note, "not attempted"):
						crossSkipped++
					case rep.Reproduced:
						crossRuns++
						os.MkdirAll(replayDir, 0o755)
						rfile := filepath.Join(replayDir, "crosscheck_"+sanitize(j.name)+".json")
						data, _ := json.MarshalIndent(rep, "", " ")
						os.WriteFile(rfile, data, 0o644)
						viols = append(viols, viol{j.name + " (proved, but fails at run time)", rfile, false})
					default:
						crossRuns++
						if strings.Contains(rep.TestOutput, "VERIF-REPLAY-HOLDS") {
							crossHolds++
						} else {
							crossInconclusive = append(crossInconclusive, j.name+": "+trunc(strings.ReplaceAll(rep.Note+" "+lastLines(rep.TestOutput, 3), "\n", " | "), 300))
						}
					}
					mu.Unlock()
				}
			}()
		}
		for _, j := range jobs {
			ch <- j
		}
		close(ch)
		wg.Wait()
		fmt.Printf("crosscheck: %d proved clauses executed on the real code over the boundary sweep, %d hold, %d not executable (input types)\n", crossRuns, crossHolds, crossSkipped)
		sort.Strings(crossInconclusive)
		for _, x := range crossInconclusive {
			fmt.Println("crosscheck inconclusive (ran, neither failed nor confirmed):", x)
		}
	}
	// recorded findings: genuine defects kept on record; printed while they still fail, never alarmed
	for _, f := range findings {
		if f.Kind != "finding" || f.Property != *id {
			continue
		}
		if _, claimedToo := base.Claimed[f.Obligation]; claimedToo {
			continue // handled above
		}
		if o, ok := cur[f.Obligation]; ok && !oblOK(o) {
			known = append(known, fmt.Sprintf("KNOWN-FINDING: property=%s %s (obligation %s, solver %s)", *id, f.Text, f.Obligation, o.Status))
		}
	}
	sort.Strings(staleObls)
	// obligations missing from the run whose function could not be bound are stale (not violations);
	// missing obligations of functions that still exist mean the code changed shape: report as stale too.
	sort.Slice(viols, func(i, j int) bool { return viols[i].name < viols[j].name })

	// evidence
	assum := map[string]bool{}
	trusted := map[string]bool{
		"govc VC generator (Go semantics of the supported subset)":   true,
		"SMT solvers z3 4.8.12, z3 5.1.0 (z3-new), cvc5 1.0.x":         true,
		"go/types and golang.org/x/tools/go/packages v0.29.0 (loader)": true,
	}
	var fnames []string
	var unsupported []string
	havocked := map[string]bool{}
	for _, c := range vcs {
		fnames = append(fnames, fmt.Sprintf("%s [%s]", c.fn.Name, c.mode))
		for a := range c.assumptions {
			assum[a] = true
		}
		for h := range c.havocked {
			havocked[h] = true
		}
		for _, u := range c.unsupported {
			unsupported = append(unsupported, c.fn.Name+": "+u)
		}
	}
	for h := range havocked {
		assum["call havocked (unknown effects, result unconstrained): "+h] = true
	}
	for n := range base.Unclaimed {
		if o, ok := cur[n]; ok && o.Kind == "ensures" && !strings.Contains(o.Text, "@return") {
			if c := owner[n]; c != nil && c.fn.Contract != nil && !strings.Contains(nodeText(prog, c.fn.Contract.Decl), "ensuresGoal("+o.Text) {
				assum["UNPROVED postcondition still assumed at call sites: "+n] = true
			}
		}
	}
	assum["sequential semantics: one goroutine; atomics as plain accesses"] = true
	assum["spec functions and contracts are the oracle (written from the property statement and cited specifications)"] = true
	for _, a := range propAssumptions[*id] {
		assum[a] = true
	}
	var samples []map[string]string
	for i, n := range order {
		if i%(len(order)/6+1) == 0 {
			o := cur[n]
			samples = append(samples, map[string]string{"obligation": n, "kind": o.Kind, "clause": o.Text, "at": o.Pos, "status": o.Status, "solver": o.Solver})
		}
	}
	var unclaimed []string
	for n := range base.Unclaimed {
		st := "missing"
		if o, ok := cur[n]; ok {
			st = o.Status
		}
		unclaimed = append(unclaimed, fmt.Sprintf("%s [%s]", n, st))
	}
	sort.Strings(unclaimed)
	ev := map[string]any{
		"property_id": *id,
		"tier":        *tier,
		"seed":        seed,
		"level":       "proof",
		"coverage": map[string]any{
			"obligations":              claimed - len(staleObls),
			"discharged":               discharged,
			"checker_cmd":              fmt.Sprintf("/verif/bin/govc prop -id %s -tier %s", *id, *tier),
			"trusted_base":             sortedKeys(trusted),
			"functions_under_contract": fnames,
			"per_backend":              perBackend,
			"solver_seconds":           solverSecs,
			"bounded_obligations":      bounded,
			"vacuity_canaries":         canaries,
			"vacuity_canaries_sat":     canariesOK,
			"crosscheck_runs":          crossRuns,
			"crosscheck_holds":         crossHolds,
			"crosscheck_not_executable": crossSkipped,
			"stale":                    append(append([]string{}, stale...), staleObls...),
			"undecided_new":            undecidedNew,
			"unclaimed_obligations":    unclaimed,
			"unsupported_constructs":   unsupported,
			"generated_total":          len(order),
			"samples":                  samples,
			"explanation":              "Each obligation is one SMT query generated from the real function bodies in /repo (typed AST, -tags verif) and the contract functions in verif_contracts.go; 'discharged' counts claimed obligations answered unsat (canaries: sat).",
		},
		"assumptions": sortedKeys(assum),
		"wall_s":      time.Since(t0).Seconds(),
		"violations":  len(viols),
	}
	os.MkdirAll(filepath.Join(*vdir, "evidence"), 0o755)
	data, _ := json.MarshalIndent(ev, "", " ")
	os.WriteFile(filepath.Join(*vdir, "evidence", *id+".json"), append(data, '\n'), 0o644)

	for _, e := range loadErrs {
		fmt.Println("LOAD-ERROR:", e)
	}
	for _, s := range stale {
		fmt.Println(s)
	}
	for _, s := range staleObls {
		fmt.Println("CONTRACT-STALE obligation no longer generated:", s)
	}
	for _, u := range undecidedNew {
		fmt.Println("UNDECIDED-NEW", u)
	}
	for _, k := range known {
		fmt.Println(k)
	}
	fmt.Printf("property=%s tier=%s functions=%d generated=%d claimed=%d discharged=%d stale=%d violations=%d wall=%.1fs\n",
		*id, *tier, len(vcs), len(order), claimed, discharged, len(staleObls), len(viols), time.Since(t0).Seconds())
	if len(order) == 0 {
		fmt.Println("BROKEN: zero obligations generated")
		return 2
	}
	for _, v := range viols {
		if v.noInput {
			fmt.Printf("VIOLATION property=%s replay=%s no-failing-input-found\n", *id, v.replay)
		} else {
			fmt.Printf("VIOLATION property=%s replay=%s\n", *id, v.replay)
		}
	}
	if len(viols) > 0 {
		return 1
	}
	if len(loadErrs) > 0 && len(order) == 0 {
		return 2
	}
	return 0
}

// propAssumptions: per-property statement of what the component contracts do NOT cover.
var propAssumptions = map[string][]string{}

func lastLines(s string, n int) string {
	ls := strings.Split(strings.TrimSpace(s), "\n")
	if len(ls) > n {
		ls = ls[len(ls)-n:]
	}
	return strings.Join(ls, "\n")
}

// contractHasModifies: the contract declares a frame (modifiesTail / modifiesElems / ...), i.e. the
// function may overwrite memory reachable from its inputs.
func contractHasModifies(k *FuncInfo) bool {
	if k == nil || k.Decl == nil || k.Decl.Body == nil {
		return false
	}
	found := false
	ast.Inspect(k.Decl.Body, func(n ast.Node) bool {
		if call, ok := n.(*ast.CallExpr); ok {
			if id, ok := call.Fun.(*ast.Ident); ok && strings.HasPrefix(id.Name, "modifies") {
				found = true
			}
		}
		return !found
	})
	return found
}
