package main

// Discharging obligations with z3 5.1 (z3-new), z3 4.8.12 and cvc5, raced.

import (
	"context"
	"fmt"
	"os"
	"os/exec"
	"path/filepath"
	"strings"
	"sync"
	"time"
)

type solverSpec struct {
	name string
	argv func(file string, secs int) []string
}

var solvers = []solverSpec{
	{"z3-new", func(f string, s int) []string { return []string{"z3-new", fmt.Sprintf("-T:%d", s), f} }},
	{"z3-new/ematch", func(f string, s int) []string {
		return []string{"z3-new", fmt.Sprintf("-T:%d", s), "smt.mbqi=false", "smt.arith.solver=2", f}
	}},
	{"cvc5", func(f string, s int) []string { return []string{"cvc5", fmt.Sprintf("--tlimit=%d", s*1000), f} }},
	{"cvc5/enum", func(f string, s int) []string {
		return []string{"cvc5", fmt.Sprintf("--tlimit=%d", s*1000), "--full-saturate-quant", f}
	}},
	{"z3", func(f string, s int) []string { return []string{"z3", fmt.Sprintf("-T:%d", s), f} }},
	{"z3/ematch", func(f string, s int) []string { return []string{"z3", fmt.Sprintf("-T:%d", s), "smt.mbqi=false", f} }},
}

type solveResult struct {
	status string
	solver string
	secs   float64
	out    string
}

var solverSem = make(chan struct{}, 16)

func runSolver(ctx context.Context, sp solverSpec, file string, secs int) solveResult {
	select {
	case solverSem <- struct{}{}:
	case <-ctx.Done():
		return solveResult{"timeout", sp.name, 0, ""}
	}
	defer func() { <-solverSem }()
	if ctx.Err() != nil {
		return solveResult{"timeout", sp.name, 0, ""}
	}
	t0 := time.Now()
	cctx, cancel := context.WithTimeout(ctx, time.Duration(secs+2)*time.Second)
	defer cancel()
	argv := sp.argv(file, secs)
	cmd := exec.CommandContext(cctx, argv[0], argv[1:]...)
	out, _ := cmd.CombinedOutput()
	el := time.Since(t0).Seconds()
	s := strings.TrimSpace(string(out))
	first := s
	if i := strings.IndexByte(s, '\n'); i >= 0 {
		first = s[:i]
	}
	st := "unknown"
	if strings.Contains(s, "(error") {
		return solveResult{"error", sp.name, el, s}
	}
	switch strings.TrimSpace(first) {
	case "unsat":
		st = "unsat"
	case "sat":
		st = "sat"
	case "timeout":
		st = "timeout"
	case "unknown":
		st = "unknown"
	default:
		if cctx.Err() != nil {
			st = "timeout"
		} else if strings.Contains(s, "error") || strings.Contains(s, "Error") {
			st = "error"
		}
	}
	return solveResult{st, sp.name, el, s}
}

// solveOne decides one query: z3-new alone first (short), then all three raced.
func solveOne(dir, id, query string, quickSecs, fullSecs int) solveResult {
	file := filepath.Join(dir, id+".smt2")
	os.WriteFile(file, []byte(query), 0o644)
	var r solveResult
	if strings.Contains(query, "(forall ") {
		// quantified query: z3 and cvc5 with enumerative instantiation complement each other
		ctx1, cancel1 := context.WithCancel(context.Background())
		ch1 := make(chan solveResult, 2)
		var enum solverSpec
		for _, sp := range solvers {
			if sp.name == "cvc5/enum" {
				enum = sp
			}
		}
		go func() { ch1 <- runSolver(ctx1, solvers[0], file, quickSecs) }()
		go func() { ch1 <- runSolver(ctx1, enum, file, quickSecs) }()
		for k := 0; k < 2; k++ {
			x := <-ch1
			if x.status == "unsat" || x.status == "sat" {
				cancel1()
				return x
			}
			if x.solver == solvers[0].name {
				r = x
			}
		}
		cancel1()
	} else {
		r = runSolver(context.Background(), solvers[0], file, quickSecs)
		if r.status == "unsat" || r.status == "sat" {
			return r
		}
	}
	total := r.secs
	firstErr := r
	ctx, cancel := context.WithCancel(context.Background())
	defer cancel()
	ch := make(chan solveResult, len(solvers))
	for _, sp := range solvers {
		go func(sp solverSpec) { ch <- runSolver(ctx, sp, file, fullSecs) }(sp)
	}
	var last solveResult
	for range solvers {
		x := <-ch
		if x.status == "unsat" || x.status == "sat" {
			x.secs += total
			return x
		}
		if last.status == "" || x.status == "unknown" {
			last = x
		}
	}
	if last.status == "error" && firstErr.status != "error" {
		last = firstErr
	}
	last.secs += total
	return last
}

func getModel(dir, id, query, solver string, secs int) string {
	file := filepath.Join(dir, id+".model.smt2")
	os.WriteFile(file, []byte(query+"(get-model)\n"), 0o644)
	for _, sp := range solvers {
		if sp.name == solver || sp.name == strings.Split(solver, "/")[0] {
			r := runSolver(context.Background(), sp, file, secs)
			return r.out
		}
	}
	return ""
}

// solveAll discharges obligations in parallel.
func solveAll(vcs []*VC, dir string, par, quickSecs, fullSecs int, verbose bool) {
	type job struct {
		c *VC
		o *Obligation
		i int
	}
	var jobs []job
	n := 0
	for _, c := range vcs {
		for _, o := range c.obls {
			if o.Status != "" {
				continue
			}
			n++
			jobs = append(jobs, job{c, o, n})
		}
	}
	var wg sync.WaitGroup
	ch := make(chan job)
	for w := 0; w < par; w++ {
		wg.Add(1)
		go func() {
			defer wg.Done()
			for j := range ch {
				q := j.c.query(j.o, false)
				if len(q) > 4<<20 {
					j.o.Status, j.o.Solver = "error", "query-too-large"
					continue
				}
				id := fmt.Sprintf("q%04d", j.i)
				qs, fs := quickSecs, fullSecs
				if j.o.Canary {
					fs = quickSecs
				}
				r := solveOne(dir, id, q, qs, fs)
				j.o.Status, j.o.Solver, j.o.Secs = r.status, r.solver, r.secs
				j.o.Query = filepath.Join(dir, id+".smt2")
				if r.status == "error" {
					j.o.Model = r.out
				}
				if r.status == "sat" && !j.o.Canary {
					j.o.Model = getModel(dir, id, q, r.solver, quickSecs)
				}
				if verbose {
					fmt.Fprintf(os.Stderr, "  [%s %s %.2fs] %s\n", r.status, r.solver, r.secs, j.o.Name)
				}
			}
		}()
	}
	for _, j := range jobs {
		ch <- j
	}
	close(ch)
	wg.Wait()
}
