package main

// Per-function verification context: sorts for Go types, machine arithmetic in
// the two modes (bit-vector / wrapped mathematical integers), facts and
// obligations.

import (
	"fmt"
	"go/ast"
	"go/token"
	"go/types"
	"math/big"
	"sort"
	"strings"
	"sync"

	"golang.org/x/tools/go/packages"
)

type Mode int

const (
	ModeBV Mode = iota
	ModeInt
)

func (m Mode) String() string {
	if m == ModeBV {
		return "bv"
	}
	return "int"
}

type Obligation struct {
	Name    string
	Kind    string // ensures, requires(call), invariant-entry, invariant-step, decreases, panic, assert, frame, unwind, canary
	Func    string
	Text    string // clause / expression source text
	Pos     string
	NFacts  int
	PC      *Term
	Goal    *Term
	Canary  bool // expected sat (vacuity guard)
	Bounded string

	// results
	Status string // unsat, sat, unknown, timeout, error
	Solver string
	Secs   float64
	Model  string
	Query  string
}

type VC struct {
	calledSet        map[string]bool
	loopEnd          map[token.Pos]token.Pos // directive position of a loop body -> its closing brace
	sortBusy         map[string]bool         // types whose sort is under construction (cycle guard)
	monotoneMapStore bool                    // the map store being executed is to a `monotone-map` variable
	catMemo          map[string]*Term        // string concatenations already built (functional)
	splitTail        ast.Stmt                // `loop N split`: the switch ending the loop body, whose case ends are separate paths
	splitTailTarget  *target
	siteHits         map[string]int // site directives that matched a statement
	prog             *Prog
	mode             Mode
	pkg              *packages.Package
	fn               *FuncInfo // function being verified

	declOrder []string
	decls     map[string]string // name -> declaration line
	dts       []*Sort
	dtByName  map[string]*Sort
	sortMemo  map[string]*Sort
	facts     []*Term
	obls      []*Obligation
	freshN    int
	oblNames  map[string]int

	assumptions map[string]bool // assumption ledger entries used
	havocked    map[string]bool // calls havocked
	callees     map[string]bool // callees used by contract
	inlined     map[string]bool

	inlineDepth int
	ghost       int // >0: inside spec evaluation: no panic obligations
	frames      []*frame
	rets        []*retState
	curFn       *FuncInfo
	retStack    []*[]*retState

	specAxioms  map[string]bool
	specApps    map[string][]specApp
	entryArgs   []*Term
	allowLemma  bool
	siteCall    *ast.CallExpr
	siteState   *State
	unsupported []string

	runs         []*contractRun
	mods         []modSpec
	hasMods      bool
	inputs       []inputVar
	nReturns     int
	axioms       []*Term
	noName       bool
	pendingSpecs map[*FuncInfo]bool
	doneSpecs    map[*FuncInfo]bool
	defs         map[string]*Term // let-definitions: name -> term
	defOrder     []string
	frameActive  bool
	alloc0       *Term
	rowCopies    map[string]rowCopyDef
	specCache    map[string][]*Term
	quantDepth   int
	wrapFns      map[string]bool
	boundMemo    map[string]interval
	varBounds    map[string]interval
	genPanic     string
	defSymMemo   map[string]map[string]bool
	qmu          sync.Mutex
	factSymMemo  map[int]map[string]bool
	entry        *State
	entryEnv     map[types.Object]*Term
	unfoldDepth  int
	unfolded     map[string]bool
	mathInts     int
	heapPureMemo map[*FuncInfo]bool
	afterHavoc   func(*State)
	heapSorts    map[string]*Sort // every heap name used in this VC
	pendErr      *types.Var       // ghost: some callee has returned a non-nil error (directive guard-errors)
}

func newVC(prog *Prog, fn *FuncInfo, mode Mode) *VC {
	// array sorts embed per-VC datatype sorts: never share them between VCs (generation is sequential)
	arrSorts = map[string]*Sort{}
	return &VC{
		prog: prog, mode: mode, pkg: fn.Pkg, fn: fn,
		decls: map[string]string{}, dtByName: map[string]*Sort{}, sortMemo: map[string]*Sort{},
		oblNames: map[string]int{}, assumptions: map[string]bool{}, havocked: map[string]bool{},
		callees: map[string]bool{}, inlined: map[string]bool{}, specAxioms: map[string]bool{},
		pendingSpecs: map[*FuncInfo]bool{}, doneSpecs: map[*FuncInfo]bool{}, defs: map[string]*Term{}, rowCopies: map[string]rowCopyDef{}, specCache: map[string][]*Term{}, wrapFns: map[string]bool{}, unfolded: map[string]bool{}, heapPureMemo: map[*FuncInfo]bool{}, defSymMemo: map[string]map[string]bool{}, boundMemo: map[string]interval{}, varBounds: map[string]interval{},
	}
}

// ---------------------------------------------------------------- sorts

func (c *VC) idxSort() *Sort {
	if c.mode == ModeBV {
		return bvSort(64)
	}
	return sortInt
}

func (c *VC) byteSort() *Sort {
	if c.mode == ModeBV {
		return bvSort(8)
	}
	return sortInt
}

func sanitize(s string) string {
	var sb strings.Builder
	for _, r := range s {
		switch {
		case r >= 'a' && r <= 'z', r >= 'A' && r <= 'Z', r >= '0' && r <= '9', r == '_':
			sb.WriteRune(r)
		default:
			sb.WriteByte('_')
		}
	}
	return sb.String()
}

func (c *VC) declareDT(s *Sort) {
	if _, ok := c.dtByName[s.Name]; ok {
		return
	}
	c.dtByName[s.Name] = s
	c.dts = append(c.dts, s)
}

func (c *VC) sliceSort() *Sort {
	if s, ok := c.dtByName["Slice"]; ok {
		return s
	}
	i := c.idxSort()
	s := &Sort{Kind: KDT, Name: "Slice", Ctor: "mk_sl", Fields: []DTField{{"sl_base", sortInt}, {"sl_off", i}, {"sl_len", i}, {"sl_cap", i}}}
	c.declareDT(s)
	return s
}

func (c *VC) strSort() *Sort {
	if s, ok := c.dtByName["Str"]; ok {
		return s
	}
	i := c.idxSort()
	s := &Sort{Kind: KDT, Name: "Str", Ctor: "mk_st", Fields: []DTField{{"st_arr", arraySort(i, c.byteSort())}, {"st_off", i}, {"st_len", i}}}
	c.declareDT(s)
	return s
}

// intInfo returns width and signedness for integer-like basic types.
func intInfo(t types.Type) (w int, signed bool, ok bool) {
	b, isB := t.Underlying().(*types.Basic)
	if !isB {
		return 0, false, false
	}
	switch b.Kind() {
	case types.Int8:
		return 8, true, true
	case types.Int16:
		return 16, true, true
	case types.Int32:
		return 32, true, true
	case types.Int64, types.Int, types.UntypedInt, types.UntypedRune:
		return 64, true, true
	case types.Uint8:
		return 8, false, true
	case types.Uint16:
		return 16, false, true
	case types.Uint32:
		return 32, false, true
	case types.Uint64, types.Uint, types.Uintptr:
		return 64, false, true
	}
	return 0, false, false
}

func isFloat(t types.Type) (int, bool) {
	b, isB := t.Underlying().(*types.Basic)
	if !isB {
		return 0, false
	}
	switch b.Kind() {
	case types.Float32:
		return 32, true
	case types.Float64, types.UntypedFloat:
		return 64, true
	}
	return 0, false
}

func (c *VC) intSortW(w int) *Sort {
	if c.mode == ModeBV {
		return bvSort(w)
	}
	return sortInt
}

func (c *VC) sortOf(t types.Type) *Sort {
	key := types.TypeString(t, nil)
	if s, ok := c.sortMemo[key]; ok {
		return s
	}
	if c.sortBusy == nil {
		c.sortBusy = map[string]bool{}
	}
	c.sortBusy[key] = true
	s := c.sortOf1(t)
	delete(c.sortBusy, key)
	c.sortMemo[key] = s
	return s
}

func (c *VC) sortOf1(t types.Type) *Sort {
	if tp, ok := t.(*types.TypeParam); ok {
		_ = tp
		return sortInt
	}
	switch u := t.Underlying().(type) {
	case *types.Basic:
		if w, _, ok := intInfo(u); ok {
			return c.intSortW(w)
		}
		if w, ok := isFloat(u); ok {
			return c.intSortW(w)
		}
		switch u.Kind() {
		case types.Bool, types.UntypedBool:
			return sortBool
		case types.String, types.UntypedString:
			return c.strSort()
		case types.UnsafePointer, types.UntypedNil:
			return sortInt
		}
		return sortInt
	case *types.Slice:
		// a struct may contain slices of itself (filedesc.Message.L2.Messages.List): the element
		// sort is then being built further up and will be declared by the time it is needed
		if !c.sortBusy[types.TypeString(u.Elem(), nil)] {
			c.sortOf(u.Elem())
		}
		return c.sliceSort()
	case *types.Array:
		return arraySort(c.idxSort(), c.sortOf(u.Elem()))
	case *types.Struct:
		name := "S_anon_" + sanitize(types.TypeString(u, nil))
		if n, ok := t.(*types.Named); ok {
			pn := ""
			if n.Obj().Pkg() != nil {
				pn = n.Obj().Pkg().Name()
			}
			name = "S_" + sanitize(pn) + "_" + sanitize(n.Obj().Name())
			if n.TypeArgs() != nil && n.TypeArgs().Len() > 0 {
				name += "_" + sanitize(types.TypeString(n.TypeArgs().At(0), nil))
			}
		} else if a, ok := t.(*types.Alias); ok {
			return c.sortOf(types.Unalias(a))
		}
		if len(name) > 80 {
			name = fmt.Sprintf("%s_%x", name[:60], hashStr(name))
		}
		if s, ok := c.dtByName[name]; ok {
			return s
		}
		s := &Sort{Kind: KDT, Name: name, Ctor: "mk_" + name}
		// field sorts first (dependencies must be declared earlier)
		for i := 0; i < u.NumFields(); i++ {
			f := u.Field(i)
			s.Fields = append(s.Fields, DTField{Name: name + "_" + sanitize(f.Name()) + fmt.Sprintf("_%d", i), Sort: c.sortOf(f.Type())})
		}
		c.declareDT(s)
		return s
	case *types.Pointer, *types.Interface, *types.Map, *types.Chan, *types.Signature:
		return sortInt
	}
	return sortInt
}

func hashStr(s string) uint32 {
	var h uint32 = 2166136261
	for i := 0; i < len(s); i++ {
		h ^= uint32(s[i])
		h *= 16777619
	}
	return h
}

func (c *VC) structField(t types.Type, idx int) string {
	s := c.sortOf(t)
	return s.Fields[idx].Name
}

// ---------------------------------------------------------------- declarations

func (c *VC) declare(name string, s *Sort) *Term {
	if _, ok := c.decls[name]; !ok {
		c.decls[name] = fmt.Sprintf("(declare-const %s %s)", name, s.Name)
		c.declOrder = append(c.declOrder, name)
	}
	return mkConst(name, s)
}

func (c *VC) declareFun(name string, args []*Sort, ret *Sort) {
	if _, ok := c.decls[name]; ok {
		return
	}
	var as []string
	for _, a := range args {
		as = append(as, a.Name)
	}
	c.decls[name] = fmt.Sprintf("(declare-fun %s (%s) %s)", name, strings.Join(as, " "), ret.Name)
	c.declOrder = append(c.declOrder, name)
}

func (c *VC) fresh(hint string, s *Sort) *Term {
	c.freshN++
	return c.declare(fmt.Sprintf("%s!%d", sanitize(hint), c.freshN), s)
}

// name introduces a fresh constant equal to t (a let-binding), unless t is small.
func (c *VC) name(hint string, t *Term) *Term {
	if len(t.Args) == 0 || c.noName {
		return t
	}
	k := c.fresh(hint, t.Sort)
	c.defs[k.Op] = t
	c.defOrder = append(c.defOrder, k.Op)
	return k
}

func (c *VC) addFact(pc, f *Term) {
	g := mkImplies(pc, f)
	if isTrue(g) {
		return
	}
	c.facts = append(c.facts, g)
}

func (c *VC) addObl(kind, text string, pos token.Pos, pc, goal *Term) *Obligation {
	if isTrue(goal) || isFalse(pc) {
		// trivially discharged: still counted, recorded as discharged by the generator
		o := &Obligation{Kind: kind, Func: c.fn.Name, Text: text, Pos: c.prog.pos(pos), NFacts: len(c.facts), PC: pc, Goal: goal, Status: "unsat", Solver: "trivial"}
		o.Name = c.oblName(kind, text)
		c.obls = append(c.obls, o)
		return o
	}
	o := &Obligation{Kind: kind, Func: c.fn.Name, Text: text, Pos: c.prog.pos(pos), NFacts: len(c.facts), PC: pc, Goal: goal}
	o.Name = c.oblName(kind, text)
	c.obls = append(c.obls, o)
	return o
}

func (c *VC) oblName(kind, text string) string {
	t := strings.Join(strings.Fields(text), " ")
	if len(t) > 60 {
		t = fmt.Sprintf("%s~%x", t[:48], hashStr(t))
	}
	base := fmt.Sprintf("%s/%s/%s", c.fn.Name, kind, t)
	c.oblNames[base]++
	if n := c.oblNames[base]; n > 1 {
		return fmt.Sprintf("%s#%d", base, n)
	}
	return base
}

// ---------------------------------------------------------------- literals & arithmetic

func (c *VC) numLit(v *big.Int, t types.Type) *Term {
	w, _, ok := intInfo(t)
	if !ok {
		if fw, isF := isFloat(t); isF {
			w = fw
		} else {
			w = 64
		}
	}
	if c.mode == ModeBV {
		return bvLit(v, w)
	}
	return intLit(v)
}

func (c *VC) idxLit(n int64) *Term { return c.numLit(big.NewInt(n), types.Typ[types.Int]) }

func pow2(n int) *big.Int { return new(big.Int).Lsh(big.NewInt(1), uint(n)) }

func rangeOf(w int, signed bool) (lo, hi *big.Int) {
	if signed {
		lo = new(big.Int).Neg(pow2(w - 1))
		hi = new(big.Int).Sub(pow2(w-1), big.NewInt(1))
	} else {
		lo = big.NewInt(0)
		hi = new(big.Int).Sub(pow2(w), big.NewInt(1))
	}
	return
}

// wrap (int mode): reduce mathematical integer x into the range of (w, signed).
func (c *VC) wrap(x *Term, w int, signed bool) *Term {
	lo, hi := rangeOf(w, signed)
	if x.Val != nil {
		v := new(big.Int).Set(x.Val)
		m := pow2(w)
		v.Mod(v, m)
		if signed && v.Cmp(hi) > 0 {
			v.Sub(v, m)
		}
		return intLit(v)
	}
	if b, ok := c.bounds(x); ok && b.lo.Cmp(lo) >= 0 && b.hi.Cmp(hi) <= 0 {
		return x
	}
	fn := fmt.Sprintf("wrap_u%d", w)
	if signed {
		fn = fmt.Sprintf("wrap_s%d", w)
	}
	c.wrapFns[fn] = true
	return mk(fn, sortInt, x)
}

func wrapDefs(fns map[string]bool) string {
	var sb strings.Builder
	for _, fn := range sortedKeys(fns) {
		var w int
		signed := strings.HasPrefix(fn, "wrap_s")
		fmt.Sscanf(fn[6:], "%d", &w)
		lo, hi := rangeOf(w, signed)
		los := lo.String()
		if lo.Sign() < 0 {
			los = "(- " + new(big.Int).Neg(lo).String() + ")"
		}
		if signed {
			h := pow2(w - 1)
			fmt.Fprintf(&sb, "(define-fun %s ((x Int)) Int (ite (and (<= %s x) (<= x %s)) x (- (mod (+ x %s) %s) %s)))\n", fn, los, hi, h, pow2(w), h)
		} else {
			fmt.Fprintf(&sb, "(define-fun %s ((x Int)) Int (ite (and (<= %s x) (<= x %s)) x (mod x %s)))\n", fn, los, hi, pow2(w))
		}
	}
	return sb.String()
}

func (c *VC) inRange(x *Term, t types.Type) *Term {
	if c.mode != ModeInt {
		return tTrue
	}
	w, signed, ok := intInfo(t)
	if !ok {
		if fw, isF := isFloat(t); isF {
			w, signed = fw, false
		} else {
			return tTrue
		}
	}
	lo, hi := rangeOf(w, signed)
	return mkAnd(mk("<=", sortBool, intLit(lo), x), mk("<=", sortBool, x, intLit(hi)))
}

func isPow2(v *big.Int) (int, bool) {
	if v.Sign() <= 0 {
		return 0, false
	}
	n := v.BitLen() - 1
	if new(big.Int).Lsh(big.NewInt(1), uint(n)).Cmp(v) == 0 {
		return n, true
	}
	return 0, false
}

// tdiv/trem: Go truncated division on mathematical integers.
func (c *VC) tdiv(a, b *Term) *Term {
	a = c.name("da", a)
	b = c.name("db", b)
	// SMT div is floor for positive divisor, and rounds so that remainder is non-negative.
	// trunc(a/b) = sign(a)*sign(b) * (|a| div |b|)
	abs := func(x *Term) *Term { return mkIte(mk(">=", sortBool, x, intLit64(0)), x, mk("-", sortInt, x)) }
	q := mk("div", sortInt, abs(a), abs(b))
	same := mkEq(mk(">=", sortBool, a, intLit64(0)), mk(">=", sortBool, b, intLit64(0)))
	return mkIte(same, q, mk("-", sortInt, q))
}

func (c *VC) trem(a, b *Term) *Term {
	a = c.name("ra", a)
	b = c.name("rb", b)
	abs := func(x *Term) *Term { return mkIte(mk(">=", sortBool, x, intLit64(0)), x, mk("-", sortInt, x)) }
	r := mk("mod", sortInt, abs(a), abs(b))
	return mkIte(mk(">=", sortBool, a, intLit64(0)), r, mk("-", sortInt, r))
}

func (c *VC) uf(name string, ret *Sort, args ...*Term) *Term {
	var ss []*Sort
	for _, a := range args {
		ss = append(ss, a.Sort)
	}
	c.declareFun(name, ss, ret)
	if len(args) == 0 {
		return mkConst(name, ret)
	}
	return mk(name, ret, args...)
}

// binop computes a op b at Go integer type t (operands already have t's sort,
// except shift counts which are handled by shift()).
// foldConst evaluates a op b on constants with Go's wrap-around semantics; nil if not foldable.
func foldConst(op token.Token, av, bv *big.Int, w int, signed bool) *big.Int {
	norm := func(v *big.Int) *big.Int {
		m := pow2(w)
		r := new(big.Int).Mod(v, m)
		if signed {
			_, hi := rangeOf(w, true)
			if r.Cmp(hi) > 0 {
				r.Sub(r, m)
			}
		}
		return r
	}
	a, b := norm(av), norm(bv)
	r := new(big.Int)
	switch op {
	case token.ADD:
		r.Add(a, b)
	case token.SUB:
		r.Sub(a, b)
	case token.MUL:
		r.Mul(a, b)
	case token.QUO:
		if b.Sign() == 0 {
			return nil
		}
		r.Quo(a, b)
	case token.REM:
		if b.Sign() == 0 {
			return nil
		}
		r.Rem(a, b)
	case token.AND:
		r.And(new(big.Int).Mod(a, pow2(w)), new(big.Int).Mod(b, pow2(w)))
	case token.OR:
		r.Or(new(big.Int).Mod(a, pow2(w)), new(big.Int).Mod(b, pow2(w)))
	case token.XOR:
		r.Xor(new(big.Int).Mod(a, pow2(w)), new(big.Int).Mod(b, pow2(w)))
	case token.AND_NOT:
		r.AndNot(new(big.Int).Mod(a, pow2(w)), new(big.Int).Mod(b, pow2(w)))
	default:
		return nil
	}
	return norm(r)
}

func (c *VC) binop(op token.Token, a, b *Term, t types.Type) *Term {
	w, signed, ok := intInfo(t)
	if !ok {
		// floats and others: uninterpreted
		return c.uf(fmt.Sprintf("fop_%s_%s", sanitize(op.String()), sanitize(a.Sort.Name)), a.Sort, a, b)
	}
	if a.Val != nil && b.Val != nil {
		if r := foldConst(op, a.Val, b.Val, w, signed); r != nil {
			return c.numLit(r, t)
		}
	}
	if c.mode == ModeBV {
		s := bvSort(w)
		switch op {
		case token.ADD:
			// left-associate sums (x + (y + z)) -> ((x + y) + z) so that index expressions
			// built in different orders are syntactically closer (helps e-matching)
			if b.Op == "bvadd" && len(b.Args) == 2 && b.Val == nil {
				return mk("bvadd", s, c.binop(token.ADD, a, b.Args[0], t), b.Args[1])
			}
			if a.Val != nil && a.Val.Sign() == 0 {
				return b
			}
			if b.Val != nil && b.Val.Sign() == 0 {
				return a
			}
			return mk("bvadd", s, a, b)
		case token.SUB:
			return mk("bvsub", s, a, b)
		case token.MUL:
			return mk("bvmul", s, a, b)
		case token.QUO:
			if signed {
				return mk("bvsdiv", s, a, b)
			}
			return mk("bvudiv", s, a, b)
		case token.REM:
			if signed {
				return mk("bvsrem", s, a, b)
			}
			return mk("bvurem", s, a, b)
		case token.AND:
			return mk("bvand", s, a, b)
		case token.OR:
			return mk("bvor", s, a, b)
		case token.XOR:
			return mk("bvxor", s, a, b)
		case token.AND_NOT:
			return mk("bvand", s, a, mk("bvnot", s, b))
		}
		panic("binop bv " + op.String())
	}
	// int mode
	if c.mathInts > 0 && signed && w == 64 {
		// spec functions and loop invariants are over mathematical integers (no wrap-around)
		switch op {
		case token.ADD:
			return mk("+", sortInt, a, b)
		case token.SUB:
			return mk("-", sortInt, a, b)
		case token.MUL:
			return mk("*", sortInt, a, b)
		}
	}
	switch op {
	case token.ADD:
		return c.wrap(mk("+", sortInt, a, b), w, signed)
	case token.SUB:
		return c.wrap(mk("-", sortInt, a, b), w, signed)
	case token.MUL:
		return c.wrap(mk("*", sortInt, a, b), w, signed)
	case token.QUO:
		if !signed {
			return mk("div", sortInt, a, b)
		}
		return c.wrap(c.tdiv(a, b), w, signed)
	case token.REM:
		if !signed {
			return mk("mod", sortInt, a, b)
		}
		return c.trem(a, b)
	case token.AND:
		// x & (2^k-1) on non-negative x is x mod 2^k; either side constant
		for i := 0; i < 2; i++ {
			x, m := a, b
			if i == 1 {
				x, m = b, a
			}
			if m.Val != nil && m.Val.Sign() >= 0 {
				if k, ok := isPow2(new(big.Int).Add(m.Val, big.NewInt(1))); ok {
					if !signed {
						return mk("mod", sortInt, x, intLit(pow2(k)))
					}
					// signed: two's complement low bits are also x mod 2^k (SMT mod is non-negative)
					return mk("mod", sortInt, x, intLit(pow2(k)))
				}
			}
		}
	case token.OR, token.XOR, token.AND_NOT:
	}
	// single-bit constant masks: bit k of x is (x div 2^k) mod 2 (two's complement: floor division)
	for i := 0; i < 2; i++ {
		x, m := a, b
		if i == 1 {
			x, m = b, a
		}
		if i == 1 && op == token.AND_NOT {
			break
		}
		if m.Val == nil {
			continue
		}
		k, isP := isPow2(m.Val)
		if !isP || k >= w {
			continue
		}
		p2 := intLit(pow2(k))
		bit := mk("mod", sortInt, mk("div", sortInt, x, p2), intLit64(2))
		if signed && k == w-1 {
			continue
		}
		switch op {
		case token.AND:
			return mk("*", sortInt, bit, p2)
		case token.OR:
			return mk("+", sortInt, x, mk("*", sortInt, mk("-", sortInt, intLit64(1), bit), p2))
		case token.AND_NOT:
			return mk("-", sortInt, x, mk("*", sortInt, bit, p2))
		case token.XOR:
			return mk("+", sortInt, x, mk("*", sortInt, mk("-", sortInt, intLit64(1), mk("*", sortInt, intLit64(2), bit)), p2))
		}
	}
	c.assumptions["int-mode: bit operation "+op.String()+" is uninterpreted"] = true
	r := c.uf(fmt.Sprintf("bitop_%s_%d", sanitize(opName(op)), w), sortInt, a, b)
	return r
}

func opName(op token.Token) string {
	switch op {
	case token.AND:
		return "and"
	case token.OR:
		return "or"
	case token.XOR:
		return "xor"
	case token.AND_NOT:
		return "andnot"
	case token.SHL:
		return "shl"
	case token.SHR:
		return "shr"
	}
	return op.String()
}

// shift computes a << n or a >> n; a has type t, n has type nt (any integer type).
func (c *VC) shift(op token.Token, a, n *Term, t, nt types.Type) *Term {
	w, signed, _ := intInfo(t)
	nw, _, _ := intInfo(nt)
	if a.Val != nil && n.Val != nil && n.Val.IsInt64() && n.Val.Int64() >= 0 {
		k := n.Val.Int64()
		if k > 200 {
			k = 200
		}
		av := new(big.Int).Set(a.Val)
		if c.mode == ModeBV && signed {
			_, hi := rangeOf(w, true)
			if av.Cmp(hi) > 0 {
				av.Sub(av, pow2(w))
			}
		}
		var r *big.Int
		if op == token.SHL {
			r = new(big.Int).Lsh(av, uint(k))
		} else {
			r = new(big.Int).Rsh(av, uint(k)) // arithmetic for negatives (floor)
		}
		if c.mode == ModeBV {
			return bvLit(r, w)
		}
		return c.wrap(intLit(r), w, signed)
	}
	if c.mode == ModeBV {
		s := bvSort(w)
		var cnt *Term
		var big_ *Term // condition: count >= width (only when count is wider)
		if n.Val != nil {
			if n.Val.Cmp(big.NewInt(int64(w))) >= 0 {
				cnt = bvLit(big.NewInt(int64(w)), w)
				if w < 8 {
					cnt = nil
				}
			} else {
				cnt = bvLit(n.Val, w)
			}
		} else if nw == w {
			cnt = n
		} else if nw < w {
			cnt = mk(fmt.Sprintf("(_ zero_extend %d)", w-nw), s, n)
		} else {
			cnt = mk(fmt.Sprintf("(_ extract %d 0)", w-1), s, n)
			big_ = mk("bvuge", sortBool, n, bvLit(big.NewInt(int64(w)), nw))
		}
		var r, fill *Term
		switch {
		case op == token.SHL:
			r = mk("bvshl", s, a, cnt)
			fill = bvLit(big.NewInt(0), w)
		case signed:
			r = mk("bvashr", s, a, cnt)
			fill = mkIte(mk("bvslt", sortBool, a, bvLit(big.NewInt(0), w)), bvLit(big.NewInt(-1), w), bvLit(big.NewInt(0), w))
		default:
			r = mk("bvlshr", s, a, cnt)
			fill = bvLit(big.NewInt(0), w)
		}
		if big_ != nil {
			return mkIte(big_, fill, r)
		}
		return r
	}
	// int mode: constant counts only are interpreted
	if n.Val != nil && n.Val.IsInt64() && n.Val.Int64() >= 0 && n.Val.Int64() < 1024 {
		k := int(n.Val.Int64())
		if op == token.SHL {
			if k >= w {
				return intLit64(0)
			}
			return c.wrap(mk("*", sortInt, a, intLit(pow2(k))), w, signed)
		}
		if k >= w {
			if signed {
				return mkIte(mk("<", sortBool, a, intLit64(0)), intLit64(-1), intLit64(0))
			}
			return intLit64(0)
		}
		// floor division matches arithmetic shift for signed and logical for unsigned
		return mk("div", sortInt, a, intLit(pow2(k)))
	}
	c.assumptions["int-mode: shift by a non-constant is uninterpreted"] = true
	return c.uf(fmt.Sprintf("bitop_%s_%d", opName(op), w), sortInt, a, n)
}

func (c *VC) unop(op token.Token, a *Term, t types.Type) *Term {
	w, signed, ok := intInfo(t)
	if !ok {
		return c.uf("fneg_"+sanitize(a.Sort.Name), a.Sort, a)
	}
	if c.mode == ModeBV {
		s := bvSort(w)
		switch op {
		case token.SUB:
			return mk("bvneg", s, a)
		case token.XOR:
			return mk("bvnot", s, a)
		case token.ADD:
			return a
		}
	} else {
		switch op {
		case token.SUB:
			return c.wrap(mk("-", sortInt, a), w, signed)
		case token.XOR:
			// ^x = -x-1 (signed) ; 2^w-1-x (unsigned)
			if signed {
				return mk("-", sortInt, mk("-", sortInt, a), intLit64(1))
			}
			return mk("-", sortInt, intLit(new(big.Int).Sub(pow2(w), big.NewInt(1))), a)
		case token.ADD:
			return a
		}
	}
	panic("unop")
}

func (c *VC) cmp(op token.Token, a, b *Term, t types.Type) *Term {
	_, signed, ok := intInfo(t)
	if !ok {
		if _, isF := isFloat(t); isF {
			// float comparison: uninterpreted predicate except ==/!= is NOT bit equality; keep uninterpreted
			r := c.uf("fcmp_"+sanitize(op.String())+"_"+sanitize(a.Sort.Name), sortBool, a, b)
			return r
		}
		panic("cmp on non-number")
	}
	if c.mode == ModeBV {
		var o string
		switch op {
		case token.LSS:
			o = "bvult"
			if signed {
				o = "bvslt"
			}
		case token.LEQ:
			o = "bvule"
			if signed {
				o = "bvsle"
			}
		case token.GTR:
			o = "bvugt"
			if signed {
				o = "bvsgt"
			}
		case token.GEQ:
			o = "bvuge"
			if signed {
				o = "bvsge"
			}
		case token.EQL:
			return mkEq(a, b)
		case token.NEQ:
			return mkNot(mkEq(a, b))
		}
		if a.Val != nil && b.Val != nil {
			// constant fold using unsigned/signed interpretation
			w, _, _ := intInfo(t)
			av, bv := new(big.Int).Set(a.Val), new(big.Int).Set(b.Val)
			if signed {
				_, hi := rangeOf(w, true)
				if av.Cmp(hi) > 0 {
					av.Sub(av, pow2(w))
				}
				if bv.Cmp(hi) > 0 {
					bv.Sub(bv, pow2(w))
				}
			}
			cm := av.Cmp(bv)
			res := false
			switch op {
			case token.LSS:
				res = cm < 0
			case token.LEQ:
				res = cm <= 0
			case token.GTR:
				res = cm > 0
			case token.GEQ:
				res = cm >= 0
			}
			if res {
				return tTrue
			}
			return tFalse
		}
		return mk(o, sortBool, a, b)
	}
	if a.Val != nil && b.Val != nil {
		cm := a.Val.Cmp(b.Val)
		res := false
		switch op {
		case token.LSS:
			res = cm < 0
		case token.LEQ:
			res = cm <= 0
		case token.GTR:
			res = cm > 0
		case token.GEQ:
			res = cm >= 0
		case token.EQL:
			res = cm == 0
		case token.NEQ:
			res = cm != 0
		}
		if res {
			return tTrue
		}
		return tFalse
	}
	switch op {
	case token.LSS:
		return mk("<", sortBool, a, b)
	case token.LEQ:
		return mk("<=", sortBool, a, b)
	case token.GTR:
		return mk(">", sortBool, a, b)
	case token.GEQ:
		return mk(">=", sortBool, a, b)
	case token.EQL:
		return mkEq(a, b)
	case token.NEQ:
		return mkNot(mkEq(a, b))
	}
	panic("cmp")
}

// convert an integer value between Go integer types.
func (c *VC) convertInt(a *Term, from, to types.Type) *Term {
	fw, fs, ok1 := intInfo(from)
	tw, ts, ok2 := intInfo(to)
	if !ok1 || !ok2 {
		_, ff := isFloat(from)
		_, tf := isFloat(to)
		if ff && tf {
			fw0, _ := isFloat(from)
			tw0, _ := isFloat(to)
			if fw0 == tw0 {
				return a
			}
		}
		// int<->float: uninterpreted
		return c.uf(fmt.Sprintf("conv_%s_%s", sanitize(types.TypeString(from.Underlying(), nil)), sanitize(types.TypeString(to.Underlying(), nil))), c.sortOf(to), a)
	}
	if c.mode == ModeBV {
		if a.Val != nil {
			v := new(big.Int).Set(a.Val)
			if fs {
				_, hi := rangeOf(fw, true)
				if v.Cmp(hi) > 0 {
					v.Sub(v, pow2(fw))
				}
			}
			return bvLit(v, tw)
		}
		switch {
		case tw == fw:
			return a
		case tw < fw:
			return mk(fmt.Sprintf("(_ extract %d 0)", tw-1), bvSort(tw), a)
		case fs:
			return mk(fmt.Sprintf("(_ sign_extend %d)", tw-fw), bvSort(tw), a)
		default:
			return mk(fmt.Sprintf("(_ zero_extend %d)", tw-fw), bvSort(tw), a)
		}
	}
	// int mode: value stays unless it may fall outside the target range
	flo, fhi := rangeOf(fw, fs)
	tlo, thi := rangeOf(tw, ts)
	if flo.Cmp(tlo) >= 0 && fhi.Cmp(thi) <= 0 {
		return a
	}
	return c.wrap(a, tw, ts)
}

// ---------------------------------------------------------------- zero values and well-formedness

func (c *VC) zero(t types.Type) *Term {
	switch u := t.Underlying().(type) {
	case *types.Basic:
		if _, _, ok := intInfo(u); ok {
			return c.numLit(big.NewInt(0), u)
		}
		if _, ok := isFloat(u); ok {
			return c.numLit(big.NewInt(0), u)
		}
		switch u.Kind() {
		case types.Bool, types.UntypedBool:
			return tFalse
		case types.String, types.UntypedString:
			return c.strLit("")
		}
		return intLit64(0)
	case *types.Slice:
		z := c.idxLit(0)
		return mkCtor(c.sliceSort(), intLit64(0), z, z, z)
	case *types.Array:
		s := c.sortOf(t)
		return mk(fmt.Sprintf("(as const %s)", s.Name), s, c.zero(u.Elem()))
	case *types.Struct:
		s := c.sortOf(t)
		var args []*Term
		for i := 0; i < u.NumFields(); i++ {
			args = append(args, c.zero(u.Field(i).Type()))
		}
		return mkCtor(s, args...)
	}
	return intLit64(0)
}

func (c *VC) strLit(s string) *Term {
	ss := c.strSort()
	arr := c.uf("strlit_"+fmt.Sprintf("%x", hashStr(s))+fmt.Sprintf("_%d", len(s)), ss.Fields[0].Sort)
	// content facts
	key := "strlit:" + s
	if !c.specAxioms[key] {
		c.specAxioms[key] = true
		for i := 0; i < len(s); i++ {
			c.facts = append(c.facts, mkEq(mkSelect(arr, c.idxLit(int64(i))), c.numLit(big.NewInt(int64(s[i])), types.Typ[types.Uint8])))
		}
	}
	return mkCtor(ss, arr, c.idxLit(0), c.idxLit(int64(len(s))))
}

const maxLenBits = 56

// wf returns the well-formedness (type invariant) of value v of Go type t.
func (c *VC) wf(v *Term, t types.Type) *Term {
	return c.wfDepth(v, t, 0)
}

func (c *VC) wfDepth(v *Term, t types.Type, depth int) *Term {
	if depth > 3 {
		return tTrue
	}
	it := types.Typ[types.Int]
	switch u := t.Underlying().(type) {
	case *types.Basic:
		if u.Kind() == types.String || u.Kind() == types.UntypedString {
			z := c.idxLit(0)
			mx := c.numLit(pow2(maxLenBits), it)
			return mkAnd(c.cmp(token.LEQ, z, mkField(v, "st_off"), it), c.cmp(token.LEQ, mkField(v, "st_off"), mx, it),
				c.cmp(token.LEQ, z, mkField(v, "st_len"), it), c.cmp(token.LEQ, mkField(v, "st_len"), mx, it))
		}
		return c.inRange(v, u)
	case *types.Slice:
		z := c.idxLit(0)
		mx := c.numLit(pow2(maxLenBits), it)
		base, off, ln, cp := mkField(v, "sl_base"), mkField(v, "sl_off"), mkField(v, "sl_len"), mkField(v, "sl_cap")
		return mkAnd(
			mk(">=", sortBool, base, intLit64(0)),
			c.cmp(token.LEQ, z, off, it), c.cmp(token.LEQ, off, mx, it),
			c.cmp(token.LEQ, z, ln, it), c.cmp(token.LEQ, ln, cp, it), c.cmp(token.LEQ, cp, mx, it),
			mkImplies(mkEq(base, intLit64(0)), mkEq(cp, z)))
	case *types.Struct:
		var fs []*Term
		s := c.sortOf(t)
		for i := 0; i < u.NumFields(); i++ {
			fs = append(fs, c.wfDepth(mkField(v, s.Fields[i].Name), u.Field(i).Type(), depth+1))
		}
		return mkAnd(fs...)
	case *types.Pointer:
		return mk(">=", sortBool, v, intLit64(0))
	case *types.Array:
		if c.mode == ModeInt || needsWF(u.Elem()) {
			if u.Len() <= 4 {
				var fs []*Term
				for i := int64(0); i < u.Len(); i++ {
					fs = append(fs, c.wfDepth(mkSelect(v, c.idxLit(i)), u.Elem(), depth+1))
				}
				return mkAnd(fs...)
			}
		}
	}
	return tTrue
}

func needsWF(t types.Type) bool {
	switch u := t.Underlying().(type) {
	case *types.Slice, *types.Pointer:
		return true
	case *types.Basic:
		return u.Kind() == types.String
	case *types.Struct:
		for i := 0; i < u.NumFields(); i++ {
			if needsWF(u.Field(i).Type()) {
				return true
			}
		}
	}
	return false
}

// ---------------------------------------------------------------- query emission

func (c *VC) preamble() string {
	var sb strings.Builder
	for _, d := range c.dts {
		fmt.Fprintf(&sb, "(declare-datatypes ((%s 0)) (((%s", d.Name, d.Ctor)
		for _, f := range d.Fields {
			fmt.Fprintf(&sb, " (%s %s)", f.Name, f.Sort.Name)
		}
		sb.WriteString("))))\n")
	}
	for _, n := range c.declOrder {
		sb.WriteString(c.decls[n])
		sb.WriteString("\n")
	}
	return sb.String()
}

// query builds the SMT-LIB text for an obligation, keeping only the facts in
// the cone of influence of the goal and path condition (facts that share no
// symbol, transitively, with the goal cannot affect validity... they could make
// the context inconsistent, which can only hide a failure if the context is
// contradictory; the vacuity canaries guard against that using ALL facts).
func (c *VC) query(o *Obligation, allFacts bool) string { return c.queryX(o, allFacts, nil) }

func (c *VC) queryX(o *Obligation, allFacts bool, extra []*Term) string {
	c.qmu.Lock()
	defer c.qmu.Unlock()
	facts := c.facts[:o.NFacts]
	keep := make([]bool, len(facts))
	syms := map[string]bool{}
	var work []string
	addSyms := func(t *Term) {
		m := map[string]bool{}
		symbols(t, m)
		for k := range m {
			if !syms[k] && c.isUserSym(k) {
				syms[k] = true
				work = append(work, k)
			}
		}
	}
	addSyms(o.PC)
	addSyms(o.Goal)
	for _, e := range extra {
		addSyms(e)
	}
	for _, a := range c.axioms {
		addSyms(a)
	}
	fsyms := make([]map[string]bool, len(facts))
	if c.factSymMemo == nil {
		c.factSymMemo = map[int]map[string]bool{}
	}
	for i, f := range facts {
		if m, ok := c.factSymMemo[i]; ok {
			fsyms[i] = m
			continue
		}
		m := map[string]bool{}
		symbols(f, m)
		for k := range m {
			if !c.isUserSym(k) {
				delete(m, k)
			}
		}
		c.factSymMemo[i] = m
		// close under let-definitions: a fact about a named value is a fact about what it names
		var stack []string
		for k := range m {
			stack = append(stack, k)
		}
		for len(stack) > 0 {
			k := stack[len(stack)-1]
			stack = stack[:len(stack)-1]
			for d := range c.defSyms(k) {
				if !m[d] {
					m[d] = true
					stack = append(stack, d)
				}
			}
		}
		fsyms[i] = m
	}
	for {
		// close under definitions
		for len(work) > 0 {
			k := work[len(work)-1]
			work = work[:len(work)-1]
			if d, ok := c.defs[k]; ok {
				addSyms(d)
			}
		}
		changed := false
		for i := range facts {
			if keep[i] {
				continue
			}
			if o.Canary && hasQuant(facts[i]) {
				continue
			}
			hit := allFacts || len(fsyms[i]) == 0
			for k := range fsyms[i] {
				if syms[k] {
					hit = true
					break
				}
			}
			if hit {
				keep[i] = true
				changed = true
				addSyms(facts[i])
			}
		}
		if !changed && len(work) == 0 {
			break
		}
	}
	var sb strings.Builder
	sb.WriteString("(set-option :produce-models true)\n(set-logic ALL)\n")
	for _, d := range c.dts {
		fmt.Fprintf(&sb, "(declare-datatypes ((%s 0)) (((%s", d.Name, d.Ctor)
		for _, f := range d.Fields {
			fmt.Fprintf(&sb, " (%s %s)", f.Name, f.Sort.Name)
		}
		sb.WriteString("))))\n")
	}
	sb.WriteString(wrapDefs(c.wrapFns))
	for _, n := range c.declOrder {
		if syms[n] {
			sb.WriteString(c.decls[n])
			sb.WriteString("\n")
		}
	}
	for _, k := range c.defOrder {
		if syms[k] {
			fmt.Fprintf(&sb, "(assert (= %s ", k)
			c.defs[k].write(&sb)
			sb.WriteString("))\n")
		}
	}
	for _, f := range c.axioms {
		if o.Canary {
			continue
		}
		sb.WriteString("(assert ")
		f.write(&sb)
		sb.WriteString(")\n")
	}
	for i, f := range facts {
		if keep[i] {
			sb.WriteString("(assert ")
			f.write(&sb)
			sb.WriteString(")\n")
		}
	}
	sb.WriteString("(assert ")
	o.PC.write(&sb)
	sb.WriteString(")\n")
	if !o.Canary {
		sb.WriteString("(assert (not ")
		o.Goal.write(&sb)
		sb.WriteString("))\n")
	}
	sb.WriteString("(check-sat)\n")
	return sb.String()
}

// defSyms returns the user symbols occurring directly in the definition of k (nil if k is not a let-name).
func (c *VC) defSyms(k string) map[string]bool {
	if m, ok := c.defSymMemo[k]; ok {
		return m
	}
	d, ok := c.defs[k]
	if !ok {
		return nil
	}
	m := map[string]bool{}
	symbols(d, m)
	for s := range m {
		if !c.isUserSym(s) {
			delete(m, s)
		}
	}
	c.defSymMemo[k] = m
	return m
}

func hasQuant(t *Term) bool {
	if t.Op == "forall" || t.Op == "exists" {
		return true
	}
	for _, a := range t.Args {
		if hasQuant(a) {
			return true
		}
	}
	return false
}

func (c *VC) isUserSym(k string) bool {
	_, ok := c.decls[k]
	return ok
}

func sortedKeys(m map[string]bool) []string {
	var ks []string
	for k := range m {
		ks = append(ks, k)
	}
	sort.Strings(ks)
	return ks
}

var _ = ast.Inspect
