package main

// Contract vocabulary (ghost builtins), call-by-contract, and per-function verification.

import (
	"fmt"
	"go/ast"
	"go/constant"
	"go/token"
	"go/types"
	"math/big"
	"os"
	"strings"

	"golang.org/x/tools/go/packages"
)

func (p *Prog) loopIndexObj(pk *packages.Package) types.Object {
	if pk == nil || pk.Types == nil {
		return nil
	}
	return pk.Types.Scope().Lookup("loopIndex")
}

func (p *Prog) isLoopIndexObj(o types.Object) bool { return o.Name() == "loopIndex" }

func (c *VC) curRun() *contractRun {
	if len(c.runs) == 0 {
		return nil
	}
	return c.runs[len(c.runs)-1]
}

func (c *VC) ghostBuiltin(st *State, name string, call *ast.CallExpr) []*Term {
	c.ghost++
	defer func() { c.ghost-- }()
	run := c.curRun()
	text := ""
	if len(call.Args) > 0 {
		text = exprText(c.prog.fset, call.Args[0])
	}
	it := types.Typ[types.Int]
	switch name {
	case "domain":
		// a restriction of the verified domain: assumed when the function itself is verified, but
		// NOT an obligation at its call sites (listed as an assumption). Used where the condition is
		// a structural invariant established by code outside the subset (reflection-built tables).
		c.assumptions["DOMAIN restriction (assumed, not checked at call sites): "+text] = true
		if run != nil {
			if run.own && run.phase == 1 {
				run.onReq(text, call.Pos(), st, c.evalCond(st, call.Args[0]))
			}
			return nil
		}
		t := c.evalCond(st, call.Args[0])
		st.pc = mkAnd(st.pc, t)
		return nil
	case "requires":
		if run != nil {
			if run.phase == 1 {
				t := c.evalCond(st, call.Args[0])
				run.onReq(text, call.Pos(), st, t)
			}
			return nil
		}
		t := c.evalCond(st, call.Args[0])
		st.pc = mkAnd(st.pc, t)
		return nil
	case "ensuresTrusted":
		// assumed at call sites, NOT checked on the function itself (a definitional / trusted clause)
		if run != nil && run.phase == 2 && run.asCallee {
			t := c.evalCond(st, call.Args[0])
			run.onEns(text, call.Pos(), st, t)
			c.assumptions["TRUSTED postcondition (assumed, not checked on the body): "+text] = true
		}
		return nil
	case "ensures", "assert", "ensuresGoal":
		if run != nil {
			if name == "ensuresGoal" && run.asCallee {
				// goal clauses are proved (or recorded as findings) on the function itself and are never assumed by callers
				return nil
			}
			if run.phase == 2 {
				t := c.evalCond(st, call.Args[0])
				run.onEns(text, call.Pos(), st, t)
			}
			return nil
		}
		t := c.evalCond(st, call.Args[0])
		kind := "assert"
		if name != "assert" {
			kind = "ensures"
		}
		c.addObl(kind, text, call.Pos(), st.pc, t)
		st.pc = mkAnd(st.pc, t)
		return nil
	case "assume":
		t := c.evalCond(st, call.Args[0])
		c.assumptions["assume("+text+") in "+c.cur().fi.Name] = true
		if run != nil && run.phase == 1 {
			return nil
		}
		st.pc = mkAnd(st.pc, t)
		return nil
	case "imp":
		a := c.evalCond(st, call.Args[0])
		b := c.evalGuarded(st, call.Args[1], a)
		return []*Term{mkImplies(a, b)}
	case "iff":
		a := c.evalCond(st, call.Args[0])
		b := c.evalCond(st, call.Args[1])
		return []*Term{mkEq(a, b)}
	case "offsetIn":
		// index of sub's first element within whole (meaningful when they share a backing array)
		a := c.eval(st, call.Args[0])
		b := c.eval(st, call.Args[1])
		return []*Term{c.binop(token.SUB, mkField(a, "sl_off"), mkField(b, "sl_off"), it)}
	case "viewOf":
		// b's current content is exactly s[p : p+len(b)] (b was obtained by converting s and re-slicing)
		b := c.eval(st, call.Args[0])
		sv := c.eval(st, call.Args[1])
		p := c.eval(st, call.Args[2])
		_, h := c.sliceHeap(st, types.Typ[types.Uint8])
		return []*Term{mkAnd(mkEq(c.sel(h, mkField(b, "sl_base")), mkField(sv, "st_arr")),
			mkEq(mkField(b, "sl_off"), c.binop(token.ADD, mkField(sv, "st_off"), p, it)),
			c.cmp(token.LEQ, c.idxLit(0), p, it),
			c.cmp(token.LEQ, c.binop(token.ADD, p, mkField(b, "sl_len"), it), mkField(sv, "st_len"), it))}
	case "suffixOf":
		// a is a suffix of b: same backing array, same end, starts no earlier
		a := c.eval(st, call.Args[0])
		b := c.eval(st, call.Args[1])
		aend := c.binop(token.ADD, mkField(a, "sl_off"), mkField(a, "sl_len"), it)
		bend := c.binop(token.ADD, mkField(b, "sl_off"), mkField(b, "sl_len"), it)
		acend := c.binop(token.ADD, mkField(a, "sl_off"), mkField(a, "sl_cap"), it)
		bcend := c.binop(token.ADD, mkField(b, "sl_off"), mkField(b, "sl_cap"), it)
		return []*Term{mkAnd(mkEq(mkField(a, "sl_base"), mkField(b, "sl_base")), mkEq(aend, bend), mkEq(acend, bcend),
			c.cmp(token.LEQ, c.idxLit(0), mkField(a, "sl_len"), it), c.cmp(token.LEQ, mkField(a, "sl_len"), mkField(b, "sl_len"), it))}
	case "old":
		if (run == nil || run.old == nil) && c.entry != nil {
			// inside the function under verification (loop invariants): entry values of parameters, entry heap
			env := make(map[types.Object]*Term, len(st.env))
			for k, v := range st.env {
				env[k] = v
			}
			for k, v := range c.entryEnv {
				env[k] = v
			}
			o := &State{env: env, heaps: c.entry.heaps, alloc: c.entry.alloc, pc: st.pc}
			// boxed parameters are not supported here
			return []*Term{c.eval(o, call.Args[0])}
		}
		if run == nil || run.old == nil {
			return []*Term{c.eval(st, call.Args[0])}
		}
		o := &State{env: st.env, heaps: run.old.heaps, alloc: run.old.alloc, pc: st.pc}
		return []*Term{c.eval(o, call.Args[0])}
	case "forall", "exists":
		lo := c.eval(st, call.Args[0])
		hi := c.eval(st, call.Args[1])
		lit, ok := ast.Unparen(call.Args[2]).(*ast.FuncLit)
		if !ok || len(lit.Body.List) != 1 {
			c.unsupportedf(call.Pos(), "%s needs a function literal with a single return", name)
			return []*Term{c.fresh("q", sortBool)}
		}
		ret, ok := lit.Body.List[0].(*ast.ReturnStmt)
		if !ok || len(ret.Results) != 1 {
			c.unsupportedf(call.Pos(), "%s needs a function literal with a single return", name)
			return []*Term{c.fresh("q", sortBool)}
		}
		tv, _ := c.cur().view.typeOf(lit)
		sig := tv.Type.(*types.Signature)
		p := sig.Params().At(0)
		if lo.Val != nil && hi.Val != nil && lo.Val.IsInt64() && hi.Val.IsInt64() && hi.Val.Int64()-lo.Val.Int64() <= 16 {
			// small constant range: expand into a finite conjunction / disjunction (quantifier-free)
			var parts []*Term
			for k := lo.Val.Int64(); k < hi.Val.Int64(); k++ {
				sub := st.clone()
				sub.env[p] = c.numLit(bigInt(k), p.Type())
				parts = append(parts, c.evalCond(sub, ret.Results[0]))
			}
			if name == "forall" {
				return []*Term{mkAnd(parts...)}
			}
			return []*Term{mkOr(parts...)}
		}
		bv := c.boundVar(p.Name(), c.sortOf(p.Type()))
		if c.mode == ModeInt {
			if bl, ok1 := c.bounds(lo); ok1 {
				if bh, ok2 := c.bounds(hi); ok2 {
					// NOTE: only valid inside the quantifier's range guard, where the body is evaluated
					c.varBounds[bv.Op] = interval{bl.lo, bh.hi}
				}
			}
		}
		sub := st.clone()
		sub.env[p] = bv
		saveNN := c.noName
		c.noName = true
		c.quantDepth++
		nf := len(c.facts)
		body := c.evalCond(sub, ret.Results[0])
		c.quantDepth--
		c.noName = saveNN
		// facts created under the binder would mention the bound variable: drop them
		c.facts = c.facts[:nf]
		rng := mkAnd(c.cmp(token.LEQ, lo, bv, it), c.cmp(token.LSS, bv, hi, it))
		if name == "forall" {
			return []*Term{mkForall([]*Term{bv}, mkImplies(rng, body))}
		}
		return []*Term{mkExists([]*Term{bv}, mkAnd(rng, body))}
	case "forallIn", "existsIn", "forallStr":
		// quantification over the elements s[lo:hi], bound by the absolute position in the backing
		// array so that ANY read of that array instantiates the fact (robust e-matching)
		sv := c.eval(st, call.Args[0])
		lo := c.eval(st, call.Args[1])
		hi := c.eval(st, call.Args[2])
		lit, ok := ast.Unparen(call.Args[3]).(*ast.FuncLit)
		var ret *ast.ReturnStmt
		if ok && len(lit.Body.List) == 1 {
			ret, _ = lit.Body.List[0].(*ast.ReturnStmt)
		}
		if ret == nil || len(ret.Results) != 1 {
			c.unsupportedf(call.Pos(), "%s needs a function literal with a single return", name)
			return []*Term{c.fresh("q", sortBool)}
		}
		tv, _ := c.cur().view.typeOf(lit)
		sig := tv.Type.(*types.Signature)
		pk, pe := sig.Params().At(0), sig.Params().At(1)
		st0 := c.typeOf(call.Args[0])
		var row, off *Term
		if sl, isSlice := st0.Underlying().(*types.Slice); isSlice {
			_, h := c.sliceHeap(st, sl.Elem())
			row = c.sel(h, mkField(sv, "sl_base"))
			off = mkField(sv, "sl_off")
		} else {
			row = mkField(sv, "st_arr")
			off = mkField(sv, "st_off")
		}
		j := c.boundVar("j", c.idxSort())
		if c.mode == ModeInt {
			c.varBounds[j.Op] = interval{bigInt(0), new(big.Int).Mul(pow2(maxLenBits), bigInt(2))}
		}
		sub := st.clone()
		sub.env[pk] = c.binop(token.SUB, j, off, it)
		sub.env[pe] = mkSelect(row, j)
		saveNN := c.noName
		c.noName = true
		c.quantDepth++
		nf := len(c.facts)
		body := c.evalCond(sub, ret.Results[0])
		c.quantDepth--
		c.noName = saveNN
		c.facts = c.facts[:nf]
		rng := mkAnd(c.cmp(token.LEQ, c.binop(token.ADD, off, lo, it), j, it), c.cmp(token.LSS, j, c.binop(token.ADD, off, hi, it), it))
		if name == "forallIn" || name == "forallStr" {
			return []*Term{mkForall([]*Term{j}, mkImplies(rng, body), mkSelect(row, j))}
		}
		return []*Term{mkExists([]*Term{j}, mkAnd(rng, body))}
	case "modifiesTail", "modifiesElems", "modifiesPtr", "modifiesAll", "modifiesMap":
		if run == nil || run.phase != 1 {
			return nil
		}
		run.hasMods = true
		if name == "modifiesAll" {
			run.mods = append(run.mods, modSpec{kind: "all"})
			return nil
		}
		v := c.eval(st, call.Args[0])
		t := c.typeOf(call.Args[0])
		switch u := t.Underlying().(type) {
		case *types.Map:
			if mt, ok := c.mapModelled(t); ok {
				run.mods = append(run.mods, modSpec{kind: "map", v: v, elemS: c.sortOf(mt.Key()), valS: c.sortOf(mt.Elem())})
			} else {
				run.mods = append(run.mods, modSpec{kind: "all"})
			}
		case *types.Slice:
			run.mods = append(run.mods, modSpec{kind: strings.ToLower(strings.TrimPrefix(name, "modifies")), v: v, elemS: c.sortOf(u.Elem()), typ: u.Elem()})
		case *types.Pointer:
			run.mods = append(run.mods, modSpec{kind: "ptr", v: v, elemS: c.sortOf(u.Elem()), typ: u.Elem()})
		default:
			c.unsupportedf(call.Pos(), "%s on %s", name, t)
		}
		return nil
	case "freshSlice":
		v := c.eval(st, call.Args[0])
		if run != nil && run.old != nil {
			return []*Term{mk(">=", sortBool, mkField(v, "sl_base"), run.old.alloc)}
		}
		if c.entry != nil {
			// inside the function under verification (loop invariants): allocated since entry
			return []*Term{mk(">=", sortBool, mkField(v, "sl_base"), c.entry.alloc)}
		}
		return []*Term{tTrue}
	case "sameOrDisjoint":
		// two pointers of one type designate the same object or non-overlapping objects
		a := c.eval(st, call.Args[0])
		b := c.eval(st, call.Args[1])
		sz := int64(1)
		if pt, ok := c.typeOf(call.Args[0]).Underlying().(*types.Pointer); ok {
			sz = c.sizeof(pt.Elem())
		}
		return []*Term{mkOr(mkEq(a, b), mk("<=", sortBool, addrAdd(a, sz), b), mk("<=", sortBool, addrAdd(b, sz), a))}
	case "allocated":
		// p points to an object that exists in the current state (its extent lies below the allocation frontier)
		v := c.eval(st, call.Args[0])
		t := c.typeOf(call.Args[0])
		if pt, ok := t.Underlying().(*types.Pointer); ok {
			return []*Term{mkAnd(mk("<", sortBool, intLit64(0), v), mk("<=", sortBool, addrAdd(v, c.sizeof(pt.Elem())), st.alloc))}
		}
		if _, ok := t.Underlying().(*types.Slice); ok {
			return []*Term{mkAnd(mk("<", sortBool, intLit64(0), mkField(v, "sl_base")), mk("<", sortBool, mkField(v, "sl_base"), st.alloc))}
		}
		return []*Term{tTrue}
	case "sameBase":
		a := c.eval(st, call.Args[0])
		b := c.eval(st, call.Args[1])
		return []*Term{mkEq(mkField(a, "sl_base"), mkField(b, "sl_base"))}
	case "sameArray":
		// same backing window: base, offset and capacity agree (an in-place extension)
		a := c.eval(st, call.Args[0])
		b := c.eval(st, call.Args[1])
		return []*Term{mkAnd(mkEq(mkField(a, "sl_base"), mkField(b, "sl_base")), mkEq(mkField(a, "sl_off"), mkField(b, "sl_off")), mkEq(mkField(a, "sl_cap"), mkField(b, "sl_cap")))}
	case "disjointFromTail":
		// the elements of v do not overlap the spare capacity of b
		v := c.eval(st, call.Args[0])
		b := c.eval(st, call.Args[1])
		vlo := mkField(v, "sl_off")
		vhi := c.binop(token.ADD, vlo, mkField(v, "sl_len"), it)
		blo := c.binop(token.ADD, mkField(b, "sl_off"), mkField(b, "sl_len"), it)
		bhi := c.binop(token.ADD, mkField(b, "sl_off"), mkField(b, "sl_cap"), it)
		return []*Term{mkOr(mkNot(mkEq(mkField(v, "sl_base"), mkField(b, "sl_base"))), c.cmp(token.LEQ, vhi, blo, it), c.cmp(token.LEQ, bhi, vlo, it), mkEq(mkField(v, "sl_len"), c.idxLit(0)))}
	case "unchangedElems":
		// the elements s[0:len(s)] hold the values they held on entry (in a postcondition: old state)
		sv := c.eval(st, call.Args[0])
		sl, ok := c.typeOf(call.Args[0]).Underlying().(*types.Slice)
		if !ok {
			c.unsupportedf(call.Pos(), "unchangedElems on non-slice")
			return []*Term{c.fresh("ghost", sortBool)}
		}
		var oldSt *State
		if run != nil && run.old != nil {
			oldSt = run.old
		} else if c.entry != nil {
			oldSt = c.entry
		}
		if oldSt == nil {
			return []*Term{tTrue}
		}
		_, hNow := c.sliceHeap(st, sl.Elem())
		_, hOld := c.sliceHeap(oldSt, sl.Elem())
		rowNow, rowOld := c.sel(hNow, mkField(sv, "sl_base")), c.sel(hOld, mkField(sv, "sl_base"))
		j := c.boundVar("j", c.idxSort())
		if c.mode == ModeInt {
			c.varBounds[j.Op] = interval{bigInt(0), new(big.Int).Mul(pow2(maxLenBits), bigInt(2))}
		}
		off, ln := mkField(sv, "sl_off"), mkField(sv, "sl_len")
		rng := mkAnd(c.cmp(token.LEQ, off, j, it), c.cmp(token.LSS, j, c.binop(token.ADD, off, ln, it), it))
		return []*Term{mkForall([]*Term{j}, mkImplies(rng, mkEq(mkSelect(rowNow, j), mkSelect(rowOld, j))), mkSelect(rowNow, j))}
	case "localBool":
		// localBool("x"): the value of the function's boolean local x in the state the clause is
		// evaluated in (for postconditions: at the return)
		if tv, ok := c.cur().view.typeOf(call.Args[0]); ok && tv.Value != nil {
			name := constant.StringVal(tv.Value)
			for o, t := range st.env {
				if o != nil && o.Name() == name && t.Sort == sortBool && o.Pkg() == c.fn.Pkg.Types {
					if v, ok := o.(*types.Var); ok && !v.IsField() && o.Parent() != nil && o.Parent() != c.fn.Pkg.Types.Scope() {
						return []*Term{t}
					}
				}
			}
		}
		c.unsupportedf(call.Pos(), "localBool: no such boolean local")
		return []*Term{c.fresh("local", sortBool)}
	case "called":
		// called("f.g"): a call whose callee expression reads f.g was executed on this path since the
		// start of the current loop iteration (since the function's entry outside loops)
		if tv, ok := c.cur().view.typeOf(call.Args[0]); ok && tv.Value != nil {
			if v := st.flags[constant.StringVal(tv.Value)]; v != nil {
				return []*Term{v}
			}
			return []*Term{tFalse}
		}
		c.unsupportedf(call.Pos(), "called: argument must be a constant string")
		return []*Term{c.fresh("called", sortBool)}
	case "arg":
		// arg[T](i): the i-th argument of the call a callsite assertion is attached to
		if c.siteCall != nil {
			if tv, ok := c.cur().view.typeOf(call.Args[0]); ok && tv.Value != nil {
				if i, ok2 := constant.Int64Val(tv.Value); ok2 && int(i) < len(c.siteCall.Args) {
					return []*Term{c.eval(c.siteState, c.siteCall.Args[i])}
				}
			}
		}
		c.unsupportedf(call.Pos(), "arg() outside a callsite assertion")
		return []*Term{c.fresh("arg", c.sortOf(c.typeOf(call)))}
	case "recv":
		// recv[T](): the receiver value of the method call a callsite assertion is attached to
		if c.siteCall != nil {
			if se, ok := ast.Unparen(c.siteCall.Fun).(*ast.SelectorExpr); ok {
				return []*Term{c.eval(c.siteState, se.X)}
			}
		}
		c.unsupportedf(call.Pos(), "recv() outside a callsite assertion on a method call")
		return []*Term{c.fresh("recv", c.sortOf(c.typeOf(call)))}
	case "identical":
		// the two values are the same value of the model (for strings: same snapshot, which
		// implies equal content; used where an uninterpreted spec function must be congruent)
		return []*Term{mkEq(c.eval(st, call.Args[0]), c.eval(st, call.Args[1]))}
	case "bytesEq":
		a := c.eval(st, call.Args[0])
		b := c.eval(st, call.Args[1])
		ta := c.typeOf(call.Args[0])
		return []*Term{c.seqEqual(st, a, ta, b, c.typeOf(call.Args[1]))}
	}
	c.unsupportedf(call.Pos(), "ghost builtin %s", name)
	return []*Term{c.fresh("ghost", sortBool)}
}

// seqEqual: two byte sequences (slice or string each) have the same length and content.
func (c *VC) seqEqual(st *State, a *Term, ta types.Type, b *Term, tb types.Type) *Term {
	it := types.Typ[types.Int]
	get := func(x *Term, t types.Type) (ln *Term, at func(i *Term) *Term) {
		if _, ok := t.Underlying().(*types.Slice); ok {
			return mkField(x, "sl_len"), func(i *Term) *Term { return c.sliceRead(st, x, i, types.Typ[types.Uint8]) }
		}
		return mkField(x, "st_len"), func(i *Term) *Term { return c.strByte(x, i) }
	}
	la, fa := get(a, ta)
	lb, fb := get(b, tb)
	i := c.boundVar("i", c.idxSort())
	c.varBounds[i.Op] = interval{bigInt(0), pow2(maxLenBits)}
	body := mkImplies(mkAnd(c.cmp(token.LEQ, c.idxLit(0), i, it), c.cmp(token.LSS, i, la, it)), mkEq(fa(i), fb(i)))
	return mkAnd(mkEq(la, lb), mkForall([]*Term{i}, body))
}

// frameFormula: everything allocated before (addresses < alloc0) outside the declared
// regions is unchanged between heap h0 and h1 of heap name hn.
func (c *VC) frameFormula(hn string, h0, h1, alloc0 *Term, mods []modSpec) *Term {
	it := types.Typ[types.Int]
	a := c.boundVar("a", sortInt)
	inAlloc := mkAnd(mk("<=", sortBool, intLit64(0), a), mk("<", sortBool, a, alloc0))
	if strings.HasPrefix(hn, "HS_") {
		i := c.boundVar("i", c.idxSort())
		var regs []*Term
		for _, m := range mods {
			if m.kind == "ptr" || m.kind == "all" || m.kind == "map" || c.sliceHeapName(m.typ) != hn {
				continue
			}
			off, ln, cp := mkField(m.v, "sl_off"), mkField(m.v, "sl_len"), mkField(m.v, "sl_cap")
			var lo, hi *Term
			if m.kind == "tail" {
				lo, hi = c.binop(token.ADD, off, ln, it), c.binop(token.ADD, off, cp, it)
			} else {
				lo, hi = off, c.binop(token.ADD, off, ln, it)
			}
			regs = append(regs, mkAnd(mkEq(a, mkField(m.v, "sl_base")), c.cmp(token.LEQ, lo, i, it), c.cmp(token.LSS, i, hi, it)))
		}
		lhs := mkSelect(mkSelect(h1, a), i)
		body := mkImplies(mkAnd(inAlloc, mkNot(mkOr(regs...))), mkEq(lhs, mkSelect(mkSelect(h0, a), i)))
		return mkForall([]*Term{a, i}, body, lhs)
	}
	var ptrs []*Term
	for _, m := range mods {
		if strings.HasPrefix(hn, "HM") {
			if m.kind == "map" {
				ptrs = append(ptrs, mkEq(a, m.v))
			}
			continue
		}
		if m.kind != "ptr" {
			continue
		}
		// the cells of *m.v: [m.v, m.v + sizeof)
		ptrs = append(ptrs, mkAnd(mk("<=", sortBool, m.v, a), mk("<", sortBool, a, addrAdd(m.v, c.sizeof(m.typ)))))
	}
	lhs := mkSelect(h1, a)
	body := mkImplies(mkAnd(inAlloc, mkNot(mkOr(ptrs...))), mkEq(lhs, mkSelect(h0, a)))
	return mkForall([]*Term{a}, body, lhs)
}

func modsAll(mods []modSpec) bool {
	for _, m := range mods {
		if m.kind == "all" {
			return true
		}
	}
	return false
}

func (c *VC) modHeapNames(mods []modSpec) map[string]bool {
	r := map[string]bool{}
	for _, m := range mods {
		switch m.kind {
		case "ptr":
			hs := map[string]*Sort{}
			c.leafHeaps(m.typ, hs, 0)
			for hn := range hs {
				r[hn] = true
			}
		case "tail", "elems":
			r[c.sliceHeapName(m.typ)] = true
		case "map":
			r["HMd_"+sanitize(m.elemS.Name)] = true
			r["HMv_"+sanitize(m.elemS.Name)+"_"+sanitize(m.valS.Name)] = true
		}
	}
	return r
}

// runContract executes the body of contract function K in ghost mode on a scratch copy of st.
func (c *VC) runContract(st *State, K *FuncInfo, run *contractRun) {
	c.pushFrame(K)
	c.runs = append(c.runs, run)
	c.ghost++
	g := st.clone()
	c.execBlock(g, K.Decl.Body.List)
	c.ghost--
	c.runs = c.runs[:len(c.runs)-1]
	c.popFrame()
}

// functionalResult: K is a contract of the shape `ensures(r == E); ...` without requires and
// modifies clauses before it; returns E evaluated in st (parameters already bound), else nil.
func (c *VC) functionalResult(st *State, K *FuncInfo) *Term {
	res := resultObjs(K)
	if len(res) != 1 || K.Decl.Body == nil {
		return nil
	}
	v := c.prog.view(K.Pkg)
	for _, stmt := range K.Decl.Body.List {
		es, ok := stmt.(*ast.ExprStmt)
		if !ok {
			continue
		}
		call, ok := es.X.(*ast.CallExpr)
		if !ok {
			continue
		}
		id, ok := call.Fun.(*ast.Ident)
		if !ok {
			continue
		}
		switch id.Name {
		case "requires", "modifiesTail", "modifiesElems", "modifiesPtr", "modifiesMap", "modifiesAll":
			return nil
		case "ensures":
			be, ok := ast.Unparen(call.Args[0]).(*ast.BinaryExpr)
			if !ok || be.Op != token.EQL {
				return nil
			}
			x, ok := ast.Unparen(be.X).(*ast.Ident)
			if !ok || v.objOf(x) != types.Object(res[0]) {
				return nil
			}
			c.pushFrame(K)
			c.ghost++
			t := c.eval(st, be.Y)
			c.ghost--
			c.popFrame()
			return t
		}
	}
	return nil
}

func (c *VC) callByContract(st *State, fi *FuncInfo, args []*Term, call *ast.CallExpr) []*Term {
	K := fi.Contract
	c.callees[fi.Name] = true
	if K.Dir.Trusted {
		c.assumptions["contract of "+fi.Name+" is trusted (body not verified)"] = true
	}
	kps := paramObjs(K)
	pre := st.clone()
	for i, p := range kps {
		if i < len(args) {
			pre.env[p] = args[i]
		}
	}
	ctext := exprText(c.prog.fset, call.Fun)
	if c.quantDepth > 0 {
		// under a binder the usual "fresh result + facts" encoding cannot be used (the facts would
		// mention the bound variable). A contract whose first clause defines the single result,
		// ensures(r == E), and that declares no effects, is used as that definition.
		if t := c.functionalResult(pre, K); t != nil {
			return []*Term{t}
		}
	}
	run := &contractRun{phase: 1}
	inSpec := c.ghost > 0
	run.onReq = func(text string, pos token.Pos, g *State, t *Term) {
		if inSpec {
			return // calls inside specifications carry no obligations
		}
		c.addObl("call-pre", ctext+": "+text, call.Pos(), g.pc, t)
	}
	c.runContract(pre, K, run)
	// effects
	if modsAll(run.mods) {
		c.checkUnknownWrites(st, call.Pos(), ctext)
		c.havocHeaps(st)
	} else if run.hasMods {
		c.checkCalleeMods(st, run.mods, call.Pos(), ctext)
		for hn := range c.modHeapNames(run.mods) {
			var h0 *Term
			if strings.HasPrefix(hn, "HM") {
				for _, m := range run.mods {
					if m.kind == "map" {
						if strings.HasPrefix(hn, "HMd_") {
							h0 = c.heapOr(st, hn, arraySort(sortInt, arraySort(m.elemS, sortBool)))
						} else {
							h0 = c.heapOr(st, hn, arraySort(sortInt, arraySort(m.elemS, m.valS)))
						}
					}
				}
			} else if strings.HasPrefix(hn, "HS_") {
				for _, m := range run.mods {
					if (m.kind == "tail" || m.kind == "elems") && c.sliceHeapName(m.typ) == hn {
						_, h0 = c.sliceHeap(st, m.typ)
					}
				}
			} else {
				for _, m := range run.mods {
					if m.kind == "ptr" {
						hs := map[string]*Sort{}
						c.leafHeaps(m.typ, hs, 0)
						if srt, ok := hs[hn]; ok {
							h0 = c.heapOr(st, hn, arraySort(sortInt, srt))
						}
					}
				}
			}
			h1 := c.fresh(hn, h0.Sort)
			c.facts = append(c.facts, c.frameFormula(hn, h0, h1, st.alloc, run.mods))
			st.heaps[hn] = h1
		}
	}
	na := c.fresh("alloc", sortInt)
	c.addFact(tTrue, mk(">=", sortBool, na, st.alloc))
	st.alloc = na
	// results
	krs := resultObjs(K)
	post := st.clone()
	for i, p := range kps {
		if i < len(args) {
			post.env[p] = args[i]
		}
	}
	var res []*Term
	for _, r := range krs {
		v := c.fresh("r_"+fi.Obj.Name()+"_"+r.Name(), c.sortOf(r.Type()))
		c.addFact(tTrue, c.wfAt(st, v, r.Type()))
		post.env[r] = v
		res = append(res, v)
	}
	run2 := &contractRun{phase: 2, old: pre, asCallee: true}
	run2.onEns = func(text string, pos token.Pos, g *State, t *Term) {
		if os.Getenv("GOVC_DEBUG") != "" {
			fmt.Fprintf(os.Stderr, "DEBUG callee-ensures %s: %s => %s\n", fi.Name, text, trunc(t.String(), 200))
		}
		c.addFact(g.pc, t)
	}
	c.runContract(post, K, run2)
	return res
}

// callLemma uses a (separately proved) pure lemma: its requires become obligations here,
// its ensures become facts. The lemma body must consist of requires/ensures and ghost
// definitions only.
func (c *VC) callLemma(st *State, L *FuncInfo, args []*Term, call *ast.CallExpr) []*Term {
	if c.ghost > 0 && !c.allowLemma {
		// a lemma used inside the body of another lemma that is itself being used as a contract:
		// proof steps of the callee are irrelevant to its requires/ensures
		return nil
	}
	c.callees[L.Name] = true
	if len(L.Dir.Props) == 0 {
		c.assumptions["UNVERIFIED lemma used (no props tag, never proved): "+L.Name] = true
	}
	if c.allowLemma {
		c.allowLemma = false
		defer func() { c.allowLemma = true }()
	}
	ps := paramObjs(L)
	pre := st.clone()
	for i, p := range ps {
		if i < len(args) {
			pre.env[p] = args[i]
		}
	}
	ctext := exprText(c.prog.fset, call.Fun)
	if L != c.fn && L.Dir.CyclicLemma && c.fn.Dir != nil && c.fn.Dir.CyclicLemma {
		c.unsupportedf(call.Pos(), "circular use of lemma %s", L.Name)
		return nil
	}
	if L == c.fn {
		// inductive use of the lemma being proved: sound only with a measure that strictly
		// decreases and is bounded below
		if L.Dir.Decreases == "" || c.entry == nil {
			c.unsupportedf(call.Pos(), "recursive use of lemma %s without //@ decreases", L.Name)
			return nil
		}
		ent := c.entry.clone()
		ent.pc = st.pc
		for i, p := range ps {
			if i < len(c.entryArgs) {
				ent.env[p] = c.entryArgs[i]
			}
		}
		m0, err0 := c.evalDirective(ent, L.Dir.Decreases, L.Decl.Body.Lbrace+1)
		m1, err1 := c.evalDirective(pre, L.Dir.Decreases, L.Decl.Body.Lbrace+1)
		if err0 != nil || err1 != nil {
			c.unsupportedf(call.Pos(), "lemma %s: cannot evaluate decreases clause %q: %v %v", L.Name, L.Dir.Decreases, err0, err1)
			return nil
		}
		it := types.Typ[types.Int]
		c.addObl("lemma-decreases", ctext+": "+L.Dir.Decreases, call.Pos(), st.pc,
			mkAnd(c.cmp(token.LEQ, c.idxLit(0), m1, it), c.cmp(token.LSS, m1, m0, it)))
	}
	run := &contractRun{phase: 1}
	run.onReq = func(text string, pos token.Pos, g *State, t *Term) {
		c.addObl("lemma-pre", ctext+": "+text, call.Pos(), g.pc, t)
	}
	c.runContract(pre, L, run)
	run2 := &contractRun{phase: 2, old: pre, asCallee: true}
	run2.onEns = func(text string, pos token.Pos, g *State, t *Term) {
		c.addFact(g.pc, t)
	}
	c.runContract(pre, L, run2)
	return nil
}

// ---------------------------------------------------------------- verifying one function

type inputVar struct {
	Name string
	Term *Term
	Type types.Type
}

func (c *VC) verify() {
	fi := c.fn
	K := fi.Contract
	fr := c.pushFrame(fi)
	st := &State{env: map[types.Object]*Term{}, heaps: map[string]*Term{}, pc: tTrue}
	st.alloc = c.allocInit()
	c.facts = append(c.facts, mk(">", sortBool, st.alloc, intLit64(0)))
	ps := paramObjs(fi)
	var entry []*Term
	for i, p := range ps {
		nm := p.Name()
		if nm == "" || nm == "_" {
			nm = fmt.Sprintf("arg%d", i)
		}
		v := c.declare("in_"+sanitize(nm), c.sortOf(p.Type()))
		c.inputs = append(c.inputs, inputVar{nm, v, p.Type()})
		c.facts = append(c.facts, c.wfAt(st, v, p.Type()))
		entry = append(entry, v)
	}
	// distinct objects of one type never overlap partially: same address or disjoint extents
	for i := range c.inputs {
		pi, ok1 := c.inputs[i].Type.Underlying().(*types.Pointer)
		if !ok1 {
			continue
		}
		for j := i + 1; j < len(c.inputs); j++ {
			pj, ok2 := c.inputs[j].Type.Underlying().(*types.Pointer)
			if !ok2 || !types.Identical(pi.Elem(), pj.Elem()) {
				continue
			}
			a, b := c.inputs[i].Term, c.inputs[j].Term
			sz := c.sizeof(pi.Elem())
			c.facts = append(c.facts, mkOr(mkEq(a, b), mk("<=", sortBool, addrAdd(a, sz), b), mk("<=", sortBool, addrAdd(b, sz), a)))
		}
	}
	// requires
	if K != nil {
		kps := paramObjs(K)
		g := st.clone()
		for i, p := range kps {
			g.env[p] = entry[i]
		}
		run := &contractRun{phase: 1, own: true}
		var reqs []*Term
		run.onReq = func(text string, pos token.Pos, gs *State, t *Term) {
			reqs = append(reqs, mkImplies(gs.pc, t))
		}
		c.runContract(g, K, run)
		c.mods = run.mods
		c.hasMods = run.hasMods
		st.pc = mkAnd(reqs...)
		c.frameActive = !modsAll(c.mods)
		c.alloc0 = st.alloc
	}
	init := st.clone()
	c.entry = init
	c.entryArgs = entry
	c.entryEnv = map[types.Object]*Term{}
	for i, p := range ps {
		if p.Name() != "" && p.Name() != "_" {
			c.bindVar(st, p, entry[i])
			if !fr.boxed[p] && !fr.arrBoxed[p] {
				c.entryEnv[p] = entry[i]
			}
		}
	}
	res := resultObjs(fi)
	for _, r := range res {
		if r.Name() != "" && r.Name() != "_" {
			fr.results = append(fr.results, r)
			c.bindVar(st, r, c.zero(r.Type()))
		}
	}
	if len(fr.results) != len(res) {
		fr.results = nil
	}
	{
		d := fi.Dir
		if K != nil {
			d = K.Dir
		}
		if d != nil && d.GuardErrors {
			c.pendErr = types.NewVar(token.NoPos, nil, "pendErr", types.Typ[types.Bool])
			st.env[c.pendErr] = tFalse
		}
	}
	c.execBlock(st, fi.Decl.Body.List)
	if !st.dead() {
		var vals []*Term
		for _, r := range fr.results {
			vals = append(vals, c.readVar(st, r))
		}
		fr.rets = append(fr.rets, &retState{st: st.clone(), vals: vals, pos: fi.Decl.Body.Rbrace})
	}
	rets := fr.rets
	c.nReturns = len(rets)
	if c.pendErr != nil {
		errT := types.Universe.Lookup("error").Type()
		for ri, r := range rets {
			pend, ok := r.st.env[c.pendErr]
			if !ok {
				continue
			}
			for i, rt := range res {
				if i < len(r.vals) && types.Identical(rt.Type(), errT) {
					c.addObl("own/error-propagation", fmt.Sprintf("return %d: a non-nil error obtained from a callee is not dropped", ri+1), r.pos, r.st.pc,
						mkImplies(pend, mkNot(mkEq(r.vals[i], intLit64(0)))))
				}
			}
		}
	}
	if sd := fi.Dir; sd != nil || K != nil {
		if K != nil {
			sd = K.Dir
		}
		for _, cs := range sd.Sites {
			if c.siteHits[fmt.Sprintf("%d %s: %s", cs.Ord, cs.Callee, cs.Expr)] == 0 {
				c.prog.errors = append(c.prog.errors, fmt.Sprintf("CONTRACT-STALE %s site %q matches no statement", fi.Name, cs.Callee))
			}
		}
	}
	split := (K != nil && K.Dir.Split) || fi.Dir.Split
	var groups [][]*retState
	if split {
		for _, r := range rets {
			groups = append(groups, []*retState{r})
		}
	} else {
		groups = [][]*retState{rets}
	}
	for gi, grp := range groups {
		if len(grp) == 0 {
			continue
		}
		m, vals := c.mergeRets(grp, res)
		suffix := ""
		if split {
			suffix = fmt.Sprintf(" @return%d", gi+1)
		}
		if m.dead() {
			continue
		}
		// vacuity canary: the end of the function must be reachable
		o := c.addObl("canary", "reachable"+suffix, grp[0].pos, m.pc, tFalse)
		o.Canary = true
		if K != nil {
			kps := paramObjs(K)
			g := m.clone()
			for i, p := range kps {
				g.env[p] = entry[i]
			}
			for i, r := range resultObjs(K) {
				if i < len(vals) {
					g.env[r] = vals[i]
				}
			}
			run := &contractRun{phase: 2, old: init}
			run.onEns = func(text string, pos token.Pos, gs *State, t *Term) {
				c.addObl("ensures", text+suffix, pos, gs.pc, t)
			}
			c.runContract(g, K, run)
		}
	}
	c.popFrame()
	c.emitSpecAxioms()
}

// checkWrite emits the frame obligation for a write to heap hn at row base, positions
// [lo,hi) (slice heaps) or cell base (pointer heaps): the location is either fresh
// (allocated during this call) or inside a region the contract declares with modifies*.
func (c *VC) checkWrite(st *State, hn string, base, lo, hi *Term, pos token.Pos, text string) {
	if !c.frameActive || c.ghost > 0 {
		return
	}
	it := types.Typ[types.Int]
	freshLoc := mk(">=", sortBool, base, c.alloc0)
	var goal *Term
	if strings.HasPrefix(hn, "HS_") {
		i := c.boundVar("i", c.idxSort())
		var regs []*Term
		for _, m := range c.mods {
			if m.kind == "ptr" || m.kind == "map" || m.kind == "all" || c.sliceHeapName(m.typ) != hn {
				continue
			}
			off, ln, cp := mkField(m.v, "sl_off"), mkField(m.v, "sl_len"), mkField(m.v, "sl_cap")
			var rlo, rhi *Term
			if m.kind == "tail" {
				rlo, rhi = c.binop(token.ADD, off, ln, it), c.binop(token.ADD, off, cp, it)
			} else {
				rlo, rhi = off, c.binop(token.ADD, off, ln, it)
			}
			regs = append(regs, mkAnd(mkEq(base, mkField(m.v, "sl_base")), c.cmp(token.LEQ, rlo, i, it), c.cmp(token.LSS, i, rhi, it)))
		}
		in := mkAnd(c.cmp(token.LEQ, lo, i, it), c.cmp(token.LSS, i, hi, it))
		goal = mkOr(freshLoc, mkForall([]*Term{i}, mkImplies(in, mkOr(regs...))))
	} else if strings.HasPrefix(hn, "HM") {
		var hs []*Term
		for _, m := range c.mods {
			if m.kind == "map" {
				hs = append(hs, mkEq(base, m.v))
			}
		}
		goal = mkOr(freshLoc, mkOr(hs...))
	} else {
		var ptrs []*Term
		for _, m := range c.mods {
			if m.kind == "ptr" {
				ptrs = append(ptrs, mkAnd(mk("<=", sortBool, m.v, base), mk("<", sortBool, base, addrAdd(m.v, c.sizeof(m.typ)))))
			}
		}
		goal = mkOr(freshLoc, mkOr(ptrs...))
	}
	c.addObl("frame", "write "+text+" stays inside the declared modifies regions", pos, st.pc, goal)
}

// checkUnknownWrites: a call whose effects are unknown cannot be framed.
func (c *VC) checkUnknownWrites(st *State, pos token.Pos, text string) {
	if !c.frameActive || c.ghost > 0 {
		return
	}
	c.addObl("frame", "call "+text+" has unknown heap effects but the contract has no modifiesAll()", pos, st.pc, tFalse)
}

// checkCalleeMods: the regions a callee may modify must be fresh or inside the caller's declared regions.
func (c *VC) checkCalleeMods(st *State, mods []modSpec, pos token.Pos, text string) {
	if !c.frameActive || c.ghost > 0 {
		return
	}
	it := types.Typ[types.Int]
	for _, m := range mods {
		switch m.kind {
		case "map":
			c.checkWrite(st, "HMd_"+sanitize(m.elemS.Name), m.v, nil, nil, pos, text)
		case "ptr":
			c.checkWrite(st, "HP_any", m.v, nil, nil, pos, text)
			if sz := c.sizeof(m.typ); sz > 1 {
				c.checkWrite(st, "HP_any", addrAdd(m.v, sz-1), nil, nil, pos, text)
			}
		case "tail", "elems":
			off, ln, cp := mkField(m.v, "sl_off"), mkField(m.v, "sl_len"), mkField(m.v, "sl_cap")
			lo, hi := off, c.binop(token.ADD, off, ln, it)
			if m.kind == "tail" {
				lo, hi = c.binop(token.ADD, off, ln, it), c.binop(token.ADD, off, cp, it)
			}
			c.checkWrite(st, c.sliceHeapName(m.typ), mkField(m.v, "sl_base"), lo, hi, pos, text)
		}
	}
}

// emitSpecAxioms adds the unfolding axioms of recursive / opaque spec functions that were used.
func (c *VC) emitSpecAxioms() {
	// opaque spec functions are unfolded once per syntactic application (calls.go: specUF);
	// quantified unfolding axioms (specdef.go) are no longer emitted.
}
