package main

// Recursive / opaque spec functions: uninterpreted function plus unfolding axiom.

import (
	"go/types"
)

func (c *VC) emitPendingSpecs() {
	for len(c.pendingSpecs) > 0 {
		var todo []*FuncInfo
		for fi := range c.pendingSpecs {
			todo = append(todo, fi)
		}
		for _, fi := range todo {
			delete(c.pendingSpecs, fi)
			if c.doneSpecs[fi] {
				continue
			}
			c.doneSpecs[fi] = true
			c.emitSpecAxiom(fi)
		}
	}
}

func (c *VC) emitSpecAxiom(fi *FuncInfo) {
	saveFrames := c.frames
	c.frames = nil
	saveNoName := c.noName
	c.noName = true
	c.ghost++
	defer func() {
		c.ghost--
		c.noName = saveNoName
		c.frames = saveFrames
	}()

	ps := paramObjs(fi)
	res := resultObjs(fi)
	st := &State{env: map[types.Object]*Term{}, heaps: map[string]*Term{}, pc: tTrue, alloc: c.allocInit()}
	var bvars, args, rows []*Term
	wf := tTrue
	for _, p := range ps {
		v := c.boundVar(p.Name(), c.sortOf(p.Type()))
		bvars = append(bvars, v)
		args = append(args, v)
		wf = mkAnd(wf, c.wf(v, p.Type()))
	}
	for i, p := range ps {
		if u, ok := p.Type().Underlying().(*types.Slice); ok {
			es := c.sortOf(u.Elem())
			hn, h := c.sliceHeap(st, u.Elem())
			row := c.boundVar("row", arraySort(c.idxSort(), es))
			bvars = append(bvars, row)
			rows = append(rows, row)
			st.heaps[hn] = mkStore(h, mkField(args[i], "sl_base"), row)
		}
	}
	uargs := append(append([]*Term{}, args...), rows...)
	name := "spec_" + sanitize(fi.Name)
	lhs := c.uf(name, c.sortOf(res[0].Type()), uargs...)

	fr := c.pushFrame(fi)
	for i, p := range ps {
		if p.Name() != "" && p.Name() != "_" {
			st.env[p] = args[i]
		}
	}
	for _, r := range res {
		if r.Name() != "" && r.Name() != "_" {
			fr.results = append(fr.results, r)
			st.env[r] = c.zero(r.Type())
		}
	}
	if len(fr.results) != len(res) {
		fr.results = nil
	}
	nf := len(c.facts)
	c.execBlock(st, fi.Decl.Body.List)
	if !st.dead() {
		var vals []*Term
		for _, r := range fr.results {
			vals = append(vals, c.readVar(st, r))
		}
		fr.rets = append(fr.rets, &retState{st: st.clone(), vals: vals})
	}
	_, vals := c.mergeRets(fr.rets, res)
	c.popFrame()
	// facts produced while executing with bound variables would be ill-scoped: drop them
	c.facts = c.facts[:nf]
	if len(vals) == 0 {
		return
	}
	body := mkImplies(wf, mkEq(lhs, vals[0]))
	c.axioms = append(c.axioms, mkForall(bvars, body, lhs))
}
