package main

// Light-weight interval analysis over integer-sorted terms (int mode), used to
// omit wrap-around where overflow is syntactically impossible. Every bound used
// here is implied by a fact the engine has already assumed (slice/string
// well-formedness: 0 <= off,len,cap <= 2^maxLenBits; declared ranges).

import "math/big"

type interval struct{ lo, hi *big.Int }

func (c *VC) bounds(t *Term) (interval, bool) {
	return c.boundsDepth(t, 0)
}

func (c *VC) boundsDepth(t *Term, depth int) (interval, bool) {
	if depth > 24 || t.Sort != sortInt {
		return interval{}, false
	}
	if t.Val != nil {
		return interval{t.Val, t.Val}, true
	}
	if len(t.Args) == 0 {
		if b, ok := c.boundMemo[t.Op]; ok {
			return b, b.lo != nil
		}
		if b, ok := c.varBounds[t.Op]; ok {
			return b, true
		}
		if d, ok := c.defs[t.Op]; ok {
			c.boundMemo[t.Op] = interval{} // cycle guard
			b, ok := c.boundsDepth(d, depth+1)
			if ok {
				c.boundMemo[t.Op] = b
			}
			return b, ok
		}
		return interval{}, false
	}
	mx := pow2(maxLenBits)
	switch t.Op {
	case "sl_off", "sl_len", "sl_cap", "st_off", "st_len":
		a := t.Args[0]
		if len(a.Args) == 0 {
			if d, ok := c.defs[a.Op]; ok {
				return c.boundsDepth(mkField(d, t.Op), depth+1)
			}
			return interval{big.NewInt(0), mx}, true
		}
		if a.Op == "ite" {
			x, ok1 := c.boundsDepth(mkField(a.Args[1], t.Op), depth+1)
			y, ok2 := c.boundsDepth(mkField(a.Args[2], t.Op), depth+1)
			if ok1 && ok2 {
				return union(x, y), true
			}
		}
		return interval{}, false
	case "+":
		lo, hi := big.NewInt(0), big.NewInt(0)
		for _, a := range t.Args {
			b, ok := c.boundsDepth(a, depth+1)
			if !ok {
				return interval{}, false
			}
			lo = new(big.Int).Add(lo, b.lo)
			hi = new(big.Int).Add(hi, b.hi)
		}
		return interval{lo, hi}, true
	case "-":
		if len(t.Args) == 1 {
			b, ok := c.boundsDepth(t.Args[0], depth+1)
			if !ok {
				return interval{}, false
			}
			return interval{new(big.Int).Neg(b.hi), new(big.Int).Neg(b.lo)}, true
		}
		if len(t.Args) == 2 {
			a, ok1 := c.boundsDepth(t.Args[0], depth+1)
			b, ok2 := c.boundsDepth(t.Args[1], depth+1)
			if ok1 && ok2 {
				return interval{new(big.Int).Sub(a.lo, b.hi), new(big.Int).Sub(a.hi, b.lo)}, true
			}
		}
	case "*":
		if len(t.Args) == 2 {
			a, ok1 := c.boundsDepth(t.Args[0], depth+1)
			b, ok2 := c.boundsDepth(t.Args[1], depth+1)
			if ok1 && ok2 {
				ps := []*big.Int{new(big.Int).Mul(a.lo, b.lo), new(big.Int).Mul(a.lo, b.hi), new(big.Int).Mul(a.hi, b.lo), new(big.Int).Mul(a.hi, b.hi)}
				lo, hi := ps[0], ps[0]
				for _, p := range ps[1:] {
					if p.Cmp(lo) < 0 {
						lo = p
					}
					if p.Cmp(hi) > 0 {
						hi = p
					}
				}
				return interval{lo, hi}, true
			}
		}
	case "ite":
		a, ok1 := c.boundsDepth(t.Args[1], depth+1)
		b, ok2 := c.boundsDepth(t.Args[2], depth+1)
		if ok1 && ok2 {
			return union(a, b), true
		}
	case "mod":
		if m := t.Args[1]; m.Val != nil && m.Val.Sign() > 0 {
			return interval{big.NewInt(0), new(big.Int).Sub(m.Val, big.NewInt(1))}, true
		}
	case "div":
		if m := t.Args[1]; m.Val != nil && m.Val.Sign() > 0 {
			a, ok := c.boundsDepth(t.Args[0], depth+1)
			if ok {
				lo := new(big.Int).Div(a.lo, m.Val)
				hi := new(big.Int).Div(a.hi, m.Val)
				return interval{lo, hi}, true
			}
		}
	default:
		if len(t.Op) > 5 && t.Op[:5] == "wrap_" {
			var w int
			signed := t.Op[5] == 's'
			_, err := sscanInt(t.Op[6:], &w)
			if err == nil {
				lo, hi := rangeOf(w, signed)
				if a, ok := c.boundsDepth(t.Args[0], depth+1); ok && a.lo.Cmp(lo) >= 0 && a.hi.Cmp(hi) <= 0 {
					return a, true
				}
				return interval{lo, hi}, true
			}
		}
	}
	return interval{}, false
}

func union(a, b interval) interval {
	lo, hi := a.lo, a.hi
	if b.lo.Cmp(lo) < 0 {
		lo = b.lo
	}
	if b.hi.Cmp(hi) > 0 {
		hi = b.hi
	}
	return interval{lo, hi}
}

func sscanInt(s string, w *int) (int, error) {
	n := 0
	for _, ch := range s {
		if ch < '0' || ch > '9' {
			break
		}
		n = n*10 + int(ch-'0')
	}
	*w = n
	return 1, nil
}
