package main

// Loading /repo with the `verif` build tag, discovering contract functions,
// lemma functions, spec functions and //@ directives.

import (
	"fmt"
	"go/ast"
	"go/parser"
	"go/token"
	"go/types"
	"os"
	"regexp"
	"sort"
	"strconv"
	"strings"

	"golang.org/x/tools/go/packages"
)

type LoopDir struct {
	Invariants  []string
	Decreases   string
	Split       bool     // step obligations per path through the body instead of over the merged state
	Lemmas      []string // lemma instances made available at the start of every iteration
	Fallthrough []string // clauses that hold whenever the end of the body is reached by falling through
	Unroll      int
	Bounded     bool // unroll bound not implied by code: bounded stand-in
}

// CallSiteDir: `//@ callsite <callee text>: <expr>`.
type CallSiteDir struct {
	Callee string
	Expr   string
	Ord    int  // site#N: only the N-th statement (source order, 1-based) with this text; 0 = all
	Lemma  bool // site-lemma: Expr is `[cond ==>] lemma_X(args)`, instantiated instead of asserted
	After  bool // site-lemma-after: after the statement has been executed
}

type Directives struct {
	Props            []string
	Mode             *Mode
	Inline           map[string]bool
	Loops            map[int]*LoopDir
	Trusted          bool // contract assumed, body not verified
	Opaque           bool // spec function: never inline, use UF + axiom
	Split            bool // one ensures obligation per return site
	NoPanic          bool // skip panic-freedom obligations (must be justified)
	Reveal           map[string]bool
	Abstract         map[string]bool // spec functions treated as uninterpreted (no definition) in this VC
	Target           string          // explicit target override: "pkgpath.Func" for external contracts
	Timeout          int
	GuardSliceStores bool            // ownership guard: every slice header this function stores into memory is fresh, empty, or an in-place extension of what was there
	GuardErrors      bool            // every non-nil error obtained from a callee leads to a non-nil returned error
	CyclicLemma      bool            // lemma on a cycle of lemma uses (uses inside the cycle give no facts)
	Decreases        string          // lemma: termination measure for self-recursive (inductive) use
	MonotoneFalse    map[string]bool // boolean locals that may only be lowered
	MonotoneMap      map[string]bool // boolean-valued map locals whose true entries stay true
	InsertOnlyMap    map[string]bool // map expressions (source text) into which only absent keys are stored
	FrameLocal       []string        // array locals (and slices of them) that never escape: dynamic calls cannot touch them
	Sites            []CallSiteDir   // assertions checked immediately before a statement with the given source text
	CallSites        []CallSiteDir   // assertions checked in the caller's scope immediately before a named call
	PureFuncValues   bool            // calls through func-typed variables are uninterpreted pure functions in this VC
	SpecFrame        bool            // emit pairwise frame facts for spec applications over slices (window-only dependence)
	Uninterp         bool            // spec function: always an uninterpreted function (its Go body is only used when replaying)
	Unfold           int             // spec functions: recursion is inlined up to this depth (then uninterpreted)
	Raw              []string
}

type FuncInfo struct {
	Name     string
	Obj      *types.Func
	Decl     *ast.FuncDecl
	Pkg      *packages.Package
	Contract *FuncInfo // for real functions: their contract function
	Target   *FuncInfo // for contract functions: the real function
	Kind     string    // real, contract, lemma, spec
	Dir      *Directives
	Ghost    bool
}

type Prog struct {
	fset         *token.FileSet
	pkgs         map[string]*packages.Package // by path
	roots        []*packages.Package
	funcs        map[*types.Func]*FuncInfo
	byName       map[string]*FuncInfo
	extra        map[*packages.Package]*types.Info
	fileOf       map[*ast.File]*packages.Package
	repoDir      string
	errors       []string
	pure         map[string]bool // qualified names assumed pure (result-only havoc)
	inlineAlways map[string]bool
}

func (p *Prog) pos(ps token.Pos) string {
	if !ps.IsValid() {
		return ""
	}
	q := p.fset.Position(ps)
	f := strings.TrimPrefix(q.Filename, p.repoDir+"/")
	return fmt.Sprintf("%s:%d", f, q.Line)
}

var dirRe = regexp.MustCompile(`^//\s*@\s*(.*)$`)

func parseDirectives(cg *ast.CommentGroup) *Directives {
	d := &Directives{Inline: map[string]bool{}, Loops: map[int]*LoopDir{}, Reveal: map[string]bool{}, Abstract: map[string]bool{}}
	if cg == nil {
		return d
	}
	for _, cm := range cg.List {
		m := dirRe.FindStringSubmatch(cm.Text)
		if m == nil {
			continue
		}
		line := strings.TrimSpace(m[1])
		d.Raw = append(d.Raw, line)
		f := strings.Fields(line)
		if len(f) == 0 {
			continue
		}
		siteOrd := 0
		siteLemma, siteAfter := false, false
		for _, pfx := range []string{"site-lemma-after", "site-lemma"} {
			if f[0] == pfx || strings.HasPrefix(f[0], pfx+"#") {
				// `site-lemma[-after][#N] <statement text>: [cond ==>] lemma_X(args)`: a proved lemma
				// instantiated immediately before (after) the statement
				siteLemma, siteAfter = true, pfx == "site-lemma-after"
				if strings.HasPrefix(f[0], pfx+"#") {
					siteOrd, _ = strconv.Atoi(strings.TrimPrefix(f[0], pfx+"#"))
				}
				line = "site" + strings.TrimPrefix(line, f[0])
				f[0] = "site"
				break
			}
		}
		if strings.HasPrefix(f[0], "site#") {
			// `site#N <statement text>: <expr>`: as `site`, for the N-th matching statement only
			siteOrd, _ = strconv.Atoi(strings.TrimPrefix(f[0], "site#"))
			line = "site" + strings.TrimPrefix(line, f[0])
			f[0] = "site"
		}
		switch f[0] {
		case "props":
			for _, x := range f[1:] {
				d.Props = append(d.Props, strings.Split(strings.Trim(x, ","), ",")...)
			}
		case "mode":
			if len(f) > 1 {
				var md Mode
				if f[1] == "int" {
					md = ModeInt
				}
				d.Mode = &md
			}
		case "inline":
			for _, x := range f[1:] {
				d.Inline[x] = true
			}
		case "abstract":
			for _, x := range f[1:] {
				d.Abstract[x] = true
			}
		case "reveal":
			for _, x := range f[1:] {
				d.Reveal[x] = true
			}
		case "trusted":
			d.Trusted = true
		case "opaque":
			d.Opaque = true
		case "uninterpreted":
			d.Uninterp = true
		case "spec-frame":
			d.SpecFrame = true
		case "pure-funcvalues":
			d.PureFuncValues = true
		case "monotone-false":
			if d.MonotoneFalse == nil {
				d.MonotoneFalse = map[string]bool{}
			}
			for _, x := range f[1:] {
				d.MonotoneFalse[x] = true
			}
		case "insert-only-map":
			if d.InsertOnlyMap == nil {
				d.InsertOnlyMap = map[string]bool{}
			}
			for _, x := range f[1:] {
				d.InsertOnlyMap[x] = true
			}
		case "monotone-map":
			if d.MonotoneMap == nil {
				d.MonotoneMap = map[string]bool{}
			}
			for _, x := range f[1:] {
				d.MonotoneMap[x] = true
			}
		case "frame-local":
			d.FrameLocal = append(d.FrameLocal, f[1:]...)
		case "site":
			// `site <statement text>: <expr>`: assertion immediately before every statement whose source
			// text (first line) equals the given text
			rest := strings.TrimSpace(strings.TrimPrefix(line, "site"))
			if i := strings.Index(rest, ": "); i > 0 {
				d.Sites = append(d.Sites, CallSiteDir{strings.TrimSpace(rest[:i]), strings.TrimSpace(rest[i+2:]), siteOrd, siteLemma, siteAfter})
			}
		case "callsite":
			rest := strings.TrimSpace(strings.TrimPrefix(line, "callsite"))
			if i := strings.Index(rest, ":"); i > 0 {
				d.CallSites = append(d.CallSites, CallSiteDir{strings.TrimSpace(rest[:i]), strings.TrimSpace(rest[i+1:]), 0, false, false})
			}
		case "decreases":
			d.Decreases = strings.TrimSpace(strings.TrimPrefix(strings.TrimSpace(line), "decreases"))
		case "guard-errors":
			d.GuardErrors = true
		case "guard-slice-stores":
			d.GuardSliceStores = true
		case "split":
			d.Split = true
		case "nopanic":
			d.NoPanic = true
		case "target":
			if len(f) > 1 {
				d.Target = f[1]
			}
		case "unfold":
			if len(f) > 1 {
				d.Unfold, _ = strconv.Atoi(f[1])
			}
		case "timeout":
			if len(f) > 1 {
				d.Timeout, _ = strconv.Atoi(f[1])
			}
		case "loop":
			if len(f) < 3 {
				continue
			}
			n, err := strconv.Atoi(f[1])
			if err != nil {
				continue
			}
			ld := d.Loops[n]
			if ld == nil {
				ld = &LoopDir{}
				d.Loops[n] = ld
			}
			rest := strings.TrimSpace(strings.SplitN(line, f[2], 2)[1])
			switch f[2] {
			case "invariant":
				ld.Invariants = append(ld.Invariants, rest)
			case "decreases":
				ld.Decreases = rest
			case "lemma":
				ld.Lemmas = append(ld.Lemmas, rest)
			case "fallthrough":
				ld.Fallthrough = append(ld.Fallthrough, rest)
			case "split":
				ld.Split = true
			case "unroll":
				ld.Unroll, _ = strconv.Atoi(strings.Fields(rest)[0])
				if strings.Contains(rest, "bounded") {
					ld.Bounded = true
				}
			}
		}
	}
	return d
}

func funcQualName(fn *types.Func) string {
	sig := fn.Type().(*types.Signature)
	pn := ""
	if fn.Pkg() != nil {
		pn = fn.Pkg().Name()
	}
	if r := sig.Recv(); r != nil {
		t := r.Type()
		if p, ok := t.(*types.Pointer); ok {
			t = p.Elem()
		}
		tn := types.TypeString(t, func(*types.Package) string { return "" })
		if i := strings.Index(tn, "["); i >= 0 {
			tn = tn[:i]
		}
		return pn + "." + tn + "." + fn.Name()
	}
	return pn + "." + fn.Name()
}

func loadProg(repoDir string, patterns []string, overlay map[string][]byte) (*Prog, error) {
	fset := token.NewFileSet()
	cfg := &packages.Config{
		Mode: packages.NeedName | packages.NeedFiles | packages.NeedCompiledGoFiles | packages.NeedImports |
			packages.NeedDeps | packages.NeedTypes | packages.NeedSyntax | packages.NeedTypesInfo | packages.NeedTypesSizes | packages.NeedModule,
		Dir:        repoDir,
		Fset:       fset,
		BuildFlags: []string{"-tags=verif"},
		Env:        append(os.Environ(), "GOFLAGS=-mod=mod", "GOPROXY=off", "GOSUMDB=off", "GOTOOLCHAIN=local"),
		Overlay:    overlay,
		ParseFile: func(fset *token.FileSet, filename string, src []byte) (*ast.File, error) {
			return parser.ParseFile(fset, filename, src, parser.ParseComments|parser.SkipObjectResolution)
		},
	}
	roots, err := packages.Load(cfg, patterns...)
	if err != nil {
		return nil, err
	}
	p := &Prog{fset: fset, pkgs: map[string]*packages.Package{}, roots: roots, funcs: map[*types.Func]*FuncInfo{},
		byName: map[string]*FuncInfo{}, extra: map[*packages.Package]*types.Info{}, fileOf: map[*ast.File]*packages.Package{},
		repoDir: repoDir, pure: map[string]bool{}, inlineAlways: map[string]bool{}}
	packages.Visit(roots, nil, func(pk *packages.Package) {
		p.pkgs[pk.PkgPath] = pk
		for _, e := range pk.Errors {
			if pk.Module != nil && pk.Module.Main {
				p.errors = append(p.errors, e.Error())
			}
		}
	})
	for _, pk := range p.pkgs {
		if pk.Module == nil || !pk.Module.Main {
			// standard library and dependencies: index function declarations only (for inlining leaf helpers if asked)
			p.indexPkg(pk, false)
			continue
		}
		p.indexPkg(pk, true)
	}
	// bind contracts
	var names []string
	for n := range p.byName {
		names = append(names, n)
	}
	sort.Strings(names)
	for _, n := range names {
		fi := p.byName[n]
		if fi.Kind != "contract" {
			continue
		}
		tname := fi.Dir.Target
		if tname == "" {
			// contract_F or contract_Recv_F in same package
			base := strings.TrimPrefix(fi.Obj.Name(), "contract_")
			cand := fi.Pkg.Types.Name() + "." + base
			if t, ok := p.byName[cand]; ok {
				tname = cand
				_ = t
			} else if i := strings.Index(base, "_"); i > 0 {
				cand = fi.Pkg.Types.Name() + "." + base[:i] + "." + base[i+1:]
				if _, ok := p.byName[cand]; ok {
					tname = cand
				}
			}
		}
		t, ok := p.byName[tname]
		if !ok {
			p.errors = append(p.errors, fmt.Sprintf("CONTRACT-STALE %s: target function not found", fi.Name))
			continue
		}
		if msg := sigCompatible(fi.Obj, t.Obj); msg != "" {
			p.errors = append(p.errors, fmt.Sprintf("CONTRACT-STALE %s: %s", fi.Name, msg))
			continue
		}
		t.Contract = fi
		fi.Target = t
	}
	p.markCyclicLemmas()
	return p, nil
}

// markCyclicLemmas finds lemmas that use each other in a cycle of length > 1 (an unsound
// circular argument unless a common measure is given, which is not supported).
func (p *Prog) markCyclicLemmas() {
	graph := map[*FuncInfo][]*FuncInfo{}
	for _, fi := range p.funcs {
		if fi.Kind != "lemma" || fi.Decl == nil || fi.Decl.Body == nil {
			continue
		}
		v := p.view(fi.Pkg)
		ast.Inspect(fi.Decl.Body, func(n ast.Node) bool {
			call, ok := n.(*ast.CallExpr)
			if !ok {
				return true
			}
			var id *ast.Ident
			switch f := call.Fun.(type) {
			case *ast.Ident:
				id = f
			case *ast.SelectorExpr:
				id = f.Sel
			}
			if id == nil {
				return true
			}
			if fn, ok := v.objOf(id).(*types.Func); ok {
				if g := p.funcs[fn]; g != nil && g.Kind == "lemma" && g != fi {
					graph[fi] = append(graph[fi], g)
				}
			}
			return true
		})
	}
	var reach func(from, to *FuncInfo, seen map[*FuncInfo]bool) bool
	reach = func(from, to *FuncInfo, seen map[*FuncInfo]bool) bool {
		for _, g := range graph[from] {
			if g == to {
				return true
			}
			if !seen[g] {
				seen[g] = true
				if reach(g, to, seen) {
					return true
				}
			}
		}
		return false
	}
	for fi := range graph {
		if reach(fi, fi, map[*FuncInfo]bool{}) {
			fi.Dir.CyclicLemma = true
			p.errors = append(p.errors, fmt.Sprintf("lemma %s is part of a cycle of lemmas: its uses inside the cycle are ignored", fi.Name))
		}
	}
}

// sigCompatible checks that contract function c binds positionally onto target t:
// (recv, params...) and results must have identical types.
func sigCompatible(c, t *types.Func) string {
	cs := c.Type().(*types.Signature)
	ts := t.Type().(*types.Signature)
	var tparams []types.Type
	if r := ts.Recv(); r != nil {
		tparams = append(tparams, r.Type())
	}
	for i := 0; i < ts.Params().Len(); i++ {
		tparams = append(tparams, ts.Params().At(i).Type())
	}
	if cs.Params().Len() != len(tparams) {
		return fmt.Sprintf("parameter count %d != %d", cs.Params().Len(), len(tparams))
	}
	for i, tp := range tparams {
		if !types.Identical(cs.Params().At(i).Type(), tp) {
			return fmt.Sprintf("parameter %d type %s != %s", i, cs.Params().At(i).Type(), tp)
		}
	}
	if cs.Results().Len() != ts.Results().Len() {
		return fmt.Sprintf("result count %d != %d", cs.Results().Len(), ts.Results().Len())
	}
	for i := 0; i < ts.Results().Len(); i++ {
		if !types.Identical(cs.Results().At(i).Type(), ts.Results().At(i).Type()) {
			return fmt.Sprintf("result %d type mismatch", i)
		}
	}
	return ""
}

func (p *Prog) indexPkg(pk *packages.Package, main bool) {
	if pk.TypesInfo == nil {
		return
	}
	for _, f := range pk.Syntax {
		p.fileOf[f] = pk
		fname := p.fset.Position(f.Pos()).Filename
		ghostFile := strings.HasPrefix(fileBase(fname), "verif_")
		if ghostFile {
			// file-level directives: //@ pure <qualified name>
			for _, cg := range f.Comments {
				for _, cm := range cg.List {
					if m := dirRe.FindStringSubmatch(cm.Text); m != nil {
						fs := strings.Fields(m[1])
						if len(fs) >= 2 && fs[0] == "pure" {
							for _, x := range fs[1:] {
								p.pure[x] = true
							}
						}
						if len(fs) >= 2 && fs[0] == "inline-always" {
							for _, x := range fs[1:] {
								p.inlineAlways[x] = true
							}
						}
					}
				}
			}
		}
		for _, d := range f.Decls {
			fd, ok := d.(*ast.FuncDecl)
			if !ok {
				continue
			}
			obj, _ := pk.TypesInfo.Defs[fd.Name].(*types.Func)
			if obj == nil {
				continue
			}
			fi := &FuncInfo{Name: funcQualName(obj), Obj: obj, Decl: fd, Pkg: pk, Kind: "real", Ghost: ghostFile}
			fi.Dir = parseDirectives(fd.Doc)
			if ghostFile {
				switch {
				case strings.HasPrefix(obj.Name(), "fieldcontract_"):
					fi.Kind = "fieldcontract"
				case strings.HasPrefix(obj.Name(), "contract_"):
					fi.Kind = "contract"
				case strings.HasPrefix(obj.Name(), "lemma_"), strings.HasPrefix(obj.Name(), "Lemma_"):
					fi.Kind = "lemma"
				default:
					fi.Kind = "spec"
				}
			}
			p.funcs[obj] = fi
			if main {
				p.byName[fi.Name] = fi
			} else {
				p.byName[pk.PkgPath+"."+strings.TrimPrefix(fi.Name, pk.Types.Name()+".")] = fi
			}
		}
	}
}

func fileBase(s string) string {
	if i := strings.LastIndex(s, "/"); i >= 0 {
		return s[i+1:]
	}
	return s
}

// ---------------------------------------------------------------- type info lookup

func (p *Prog) extraInfo(pk *packages.Package) *types.Info {
	if in, ok := p.extra[pk]; ok {
		return in
	}
	in := &types.Info{Types: map[ast.Expr]types.TypeAndValue{}, Defs: map[*ast.Ident]types.Object{}, Uses: map[*ast.Ident]types.Object{},
		Selections: map[*ast.SelectorExpr]*types.Selection{}, Implicits: map[ast.Node]types.Object{}, Instances: map[*ast.Ident]types.Instance{}}
	p.extra[pk] = in
	return in
}

// checkExprAt parses and type-checks a directive expression in the scope at pos.
func (p *Prog) checkExprAt(pk *packages.Package, pos token.Pos, src string) (ast.Expr, error) {
	e, err := parser.ParseExprFrom(p.fset, "directive", src, 0)
	if err != nil {
		return nil, err
	}
	if err := types.CheckExpr(p.fset, pk.Types, pos, e, p.extraInfo(pk)); err != nil {
		return nil, err
	}
	return e, nil
}

type infoView struct {
	main, extra *types.Info
}

func (p *Prog) view(pk *packages.Package) infoView {
	return infoView{pk.TypesInfo, p.extraInfo(pk)}
}

func (v infoView) typeOf(e ast.Expr) (types.TypeAndValue, bool) {
	if tv, ok := v.main.Types[e]; ok {
		return tv, true
	}
	if tv, ok := v.extra.Types[e]; ok {
		return tv, true
	}
	return types.TypeAndValue{}, false
}

func (v infoView) objOf(id *ast.Ident) types.Object {
	if o := v.main.Uses[id]; o != nil {
		return o
	}
	if o := v.main.Defs[id]; o != nil {
		return o
	}
	if o := v.extra.Uses[id]; o != nil {
		return o
	}
	return v.extra.Defs[id]
}

func (v infoView) selection(s *ast.SelectorExpr) *types.Selection {
	if x := v.main.Selections[s]; x != nil {
		return x
	}
	return v.extra.Selections[s]
}

func (v infoView) implicit(n ast.Node) types.Object {
	if o := v.main.Implicits[n]; o != nil {
		return o
	}
	return v.extra.Implicits[n]
}
