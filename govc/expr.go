package main

// Expression evaluation: Go expressions (real code and ghost contract code) to SMT terms.

import (
	"bytes"
	"fmt"
	"go/ast"
	"go/constant"
	"go/printer"
	"go/token"
	"go/types"
	"math"
	"math/big"
	"strings"
)

var bigOne = big.NewInt(1)

func bigInt(v int64) *big.Int { return big.NewInt(v) }

func exprText(fset *token.FileSet, e ast.Node) string {
	var buf bytes.Buffer
	printer.Fprint(&buf, fset, e)
	return strings.Join(strings.Fields(buf.String()), " ")
}

func (c *VC) typeOf(e ast.Expr) types.Type {
	if tv, ok := c.cur().view.typeOf(e); ok && tv.Type != nil {
		return tv.Type
	}
	if id, ok := e.(*ast.Ident); ok {
		if o := c.cur().view.objOf(id); o != nil {
			return o.Type()
		}
	}
	return types.Typ[types.Invalid]
}

func (c *VC) objType(id *ast.Ident) types.Type {
	if o := c.cur().view.objOf(id); o != nil {
		return o.Type()
	}
	return types.Typ[types.Invalid]
}

// coerce converts value v of static type from to type to where Go does so implicitly
// (assignability): only interface boxing and untyped constants matter for sorts.
func (c *VC) coerce(st *State, v *Term, from, to types.Type) *Term {
	if from == nil || to == nil {
		return v
	}
	ts := c.sortOf(to)
	if v.Sort == ts {
		return v
	}
	if _, ok := to.Underlying().(*types.Interface); ok {
		return c.boxIface(v, from)
	}
	// untyped nil to slice/pointer etc.
	if b, ok := from.Underlying().(*types.Basic); ok && b.Kind() == types.UntypedNil {
		return c.zero(to)
	}
	if _, _, ok := intInfo(from); ok {
		if _, _, ok2 := intInfo(to); ok2 {
			return c.convertInt(v, from, to)
		}
	}
	return v
}

// boxIface converts a concrete value into an opaque interface value (an Int handle).
func (c *VC) boxIface(v *Term, from types.Type) *Term {
	if v.Sort == sortInt && (isPointerLike(from)) {
		return v
	}
	if _, ok := from.Underlying().(*types.Interface); ok {
		return v
	}
	f := "box_" + sanitize(types.TypeString(from, nil))
	if len(f) > 60 {
		f = fmt.Sprintf("%s_%x", f[:50], hashStr(f))
	}
	r := c.uf(f, sortInt, v)
	// an interface holding a concrete non-pointer value is never nil
	if !c.noName {
		if k := "boxnn:" + r.String(); len(k) < 300 && !c.specAxioms[k] {
			c.specAxioms[k] = true
			c.facts = append(c.facts, mkNot(mkEq(r, intLit64(0))))
		}
	}
	return r
}

func isPointerLike(t types.Type) bool {
	switch t.Underlying().(type) {
	case *types.Pointer, *types.Map, *types.Chan, *types.Signature, *types.Interface:
		return true
	}
	if b, ok := t.Underlying().(*types.Basic); ok {
		return b.Kind() == types.UnsafePointer || b.Kind() == types.UntypedNil
	}
	return false
}

func (c *VC) constTerm(tv types.TypeAndValue) *Term {
	t := tv.Type
	switch tv.Value.Kind() {
	case constant.Bool:
		if constant.BoolVal(tv.Value) {
			return tTrue
		}
		return tFalse
	case constant.String:
		return c.strLit(constant.StringVal(tv.Value))
	case constant.Int:
		v, _ := new(big.Int).SetString(tv.Value.ExactString(), 10)
		if _, isF := isFloat(t); isF {
			f, _ := constant.Float64Val(tv.Value)
			return c.floatLit(f, t)
		}
		if _, ok := t.Underlying().(*types.Interface); ok {
			return c.boxIface(c.numLit(v, types.Typ[types.Int]), types.Typ[types.Int])
		}
		return c.numLit(v, t)
	case constant.Float:
		f, _ := constant.Float64Val(tv.Value)
		if _, _, ok := intInfo(t); ok {
			iv, _ := new(big.Float).SetFloat64(f).Int(nil)
			return c.numLit(iv, t)
		}
		return c.floatLit(f, t)
	}
	return c.fresh("const", c.sortOf(t))
}

func (c *VC) floatLit(f float64, t types.Type) *Term {
	w, _ := isFloat(t)
	if w == 32 {
		return c.numLit(new(big.Int).SetUint64(uint64(math.Float32bits(float32(f)))), types.Typ[types.Uint32])
	}
	return c.numLit(new(big.Int).SetUint64(math.Float64bits(f)), types.Typ[types.Uint64])
}

func (c *VC) evalCond(st *State, e ast.Expr) *Term {
	t := c.eval(st, e)
	if t.Sort != sortBool {
		c.unsupportedf(e.Pos(), "non-bool condition")
		return c.fresh("cond", sortBool)
	}
	return t
}

func (c *VC) evalMulti(st *State, e ast.Expr) []*Term {
	switch x := ast.Unparen(e).(type) {
	case *ast.CallExpr:
		return c.evalCall(st, x)
	case *ast.TypeAssertExpr:
		// v, ok := x.(T)
		c.eval(st, x.X)
		t := c.typeOf(x)
		if tup, ok := t.(*types.Tuple); ok {
			t = tup.At(0).Type()
		}
		v := c.fresh("assert", c.sortOf(t))
		c.addFact(tTrue, c.wfAt(st, v, t))
		return []*Term{v, c.fresh("ok", sortBool)}
	case *ast.IndexExpr:
		// v, ok := m[k]
		if mt, ok := c.mapModelled(c.typeOf(x.X)); ok {
			h := c.eval(st, x.X)
			k := c.coerce(st, c.eval(st, x.Index), c.typeOf(x.Index), mt.Key())
			k = c.mapKey(mt, k)
			v, okT := c.mapRead(st, mt, h, k)
			return []*Term{v, okT}
		}
		c.eval(st, x.X)
		c.eval(st, x.Index)
		t := c.typeOf(x)
		if tup, ok := t.(*types.Tuple); ok {
			t = tup.At(0).Type()
		}
		v := c.fresh("mapv", c.sortOf(t))
		c.addFact(tTrue, c.wfAt(st, v, t))
		return []*Term{v, c.fresh("ok", sortBool)}
	case *ast.UnaryExpr:
		if x.Op == token.ARROW {
			c.unsupportedf(x.Pos(), "channel receive")
		}
	}
	return []*Term{c.eval(st, e)}
}

func (c *VC) eval(st *State, e ast.Expr) *Term {
	view := c.cur().view
	if tv, ok := view.typeOf(e); ok && tv.Value != nil {
		return c.constTerm(tv)
	}
	switch e := e.(type) {
	case *ast.ParenExpr:
		return c.eval(st, e.X)
	case *ast.Ident:
		return c.evalIdent(st, e)
	case *ast.BasicLit:
		c.unsupportedf(e.Pos(), "literal without constant value")
	case *ast.UnaryExpr:
		return c.evalUnary(st, e)
	case *ast.BinaryExpr:
		return c.evalBinary(st, e)
	case *ast.CallExpr:
		rs := c.evalCall(st, e)
		if len(rs) == 0 {
			return tTrue
		}
		return rs[0]
	case *ast.IndexExpr:
		return c.evalIndex(st, e)
	case *ast.SliceExpr:
		return c.evalSliceExpr(st, e)
	case *ast.SelectorExpr:
		return c.evalSelector(st, e)
	case *ast.StarExpr:
		if a, t, ok := c.locate(st, e); ok {
			return c.loadPlace(st, a, t)
		}
		p := c.eval(st, e.X)
		return c.deref(st, p, c.typeOf(e), e.Pos(), exprText(c.prog.fset, e))
	case *ast.CompositeLit:
		return c.evalCompositeLit(st, e)
	case *ast.TypeAssertExpr:
		c.eval(st, e.X)
		t := c.typeOf(e)
		c.panicObl(st, "type-assert", exprText(c.prog.fset, e), e.Pos(), c.fresh("assertok", sortBool))
		v := c.fresh("assert", c.sortOf(t))
		c.addFact(tTrue, c.wfAt(st, v, t))
		return v
	case *ast.FuncLit:
		id := fmt.Sprintf("funclit_%s_%d", sanitize(c.cur().fi.Name), c.prog.fset.Position(e.Pos()).Offset)
		fr := c.cur()
		if fr.lits == nil {
			fr.lits = map[string]*ast.FuncLit{}
		}
		fr.lits[id] = e
		return c.declare(id, sortInt)
	case *ast.KeyValueExpr:
		return c.eval(st, e.Value)
	}
	c.unsupportedf(e.Pos(), "expression %T", e)
	return c.fresh("unsup", c.sortOf(c.typeOf(e)))
}

func (c *VC) evalIdent(st *State, id *ast.Ident) *Term {
	view := c.cur().view
	obj := view.objOf(id)
	switch o := obj.(type) {
	case *types.Nil:
		return c.zero(c.typeOf(id))
	case *types.Var:
		if o.Pkg() != nil && o.Parent() == o.Pkg().Scope() {
			if c.prog.isLoopIndexObj(o) {
				if v, ok := st.env[o]; ok {
					return v
				}
			}
			return c.global(st, o)
		}
		return c.readVar(st, o)
	case *types.Func:
		return c.declare("fn_"+sanitize(funcQualName(o)), sortInt)
	case *types.Const:
		return c.constTerm(types.TypeAndValue{Type: o.Type(), Value: o.Val()})
	}
	if id.Name == "_" {
		return c.fresh("blank", c.sortOf(c.typeOf(id)))
	}
	c.unsupportedf(id.Pos(), "identifier %s", id.Name)
	return c.fresh("id", c.sortOf(c.typeOf(id)))
}

func (c *VC) panicObl(st *State, kind, text string, pos token.Pos, goal *Term) {
	if c.ghost > 0 {
		return
	}
	d := c.fn.Dir
	if c.fn.Contract != nil {
		d = c.fn.Contract.Dir
	}
	if d != nil && d.NoPanic {
		return
	}
	c.addObl("panic/"+kind, text, pos, st.pc, goal)
	// after the check the execution continues only where the goal holds
	st.pc = mkAnd(st.pc, goal)
}

func (c *VC) evalUnary(st *State, e *ast.UnaryExpr) *Term {
	switch e.Op {
	case token.NOT:
		return mkNot(c.evalCond(st, e.X))
	case token.SUB, token.XOR, token.ADD:
		return c.unop(e.Op, c.eval(st, e.X), c.typeOf(e))
	case token.AND:
		return c.addressOf(st, e.X)
	case token.ARROW:
		c.unsupportedf(e.Pos(), "channel receive")
	}
	return c.fresh("unary", c.sortOf(c.typeOf(e)))
}

func (c *VC) evalBinary(st *State, e *ast.BinaryExpr) *Term {
	switch e.Op {
	case token.LAND, token.LOR:
		l := c.evalCond(st, e.X)
		r := c.evalGuarded(st, e.Y, func() *Term {
			if e.Op == token.LAND {
				return l
			}
			return mkNot(l)
		}())
		if e.Op == token.LAND {
			return mkAnd(l, r)
		}
		return mkOr(l, r)
	}
	lt, rt := c.typeOf(e.X), c.typeOf(e.Y)
	l := c.eval(st, e.X)
	r := c.eval(st, e.Y)
	switch e.Op {
	case token.EQL, token.NEQ:
		t := lt
		if b, ok := lt.Underlying().(*types.Basic); ok && b.Info()&types.IsUntyped != 0 {
			t = rt
		}
		l = c.coerce(st, l, lt, t)
		r = c.coerce(st, r, rt, t)
		if _, ok := t.Underlying().(*types.Interface); !ok {
			if _, ok2 := rt.Underlying().(*types.Interface); ok2 {
				l = c.boxIface(l, lt)
			}
		}
		eq := c.equal(st, l, r, t)
		if e.Op == token.NEQ {
			return mkNot(eq)
		}
		return eq
	case token.LSS, token.LEQ, token.GTR, token.GEQ:
		t := lt
		if b, ok := lt.Underlying().(*types.Basic); ok && b.Info()&types.IsUntyped != 0 {
			t = rt
		}
		if b, ok := t.Underlying().(*types.Basic); ok && b.Info()&types.IsString != 0 {
			return c.uf("strcmp_"+sanitize(e.Op.String()), sortBool, l, r)
		}
		return c.cmp(e.Op, l, r, t)
	}
	return c.arith(st, e.Op, l, r, c.typeOf(e), rt, e.Pos(), exprText(c.prog.fset, e))
}

// arith: arithmetic/bit/shift/concat operator at result type t.
func (c *VC) arith(st *State, op token.Token, l, r *Term, t, rt types.Type, pos token.Pos, text string) *Term {
	if b, ok := t.Underlying().(*types.Basic); ok && b.Info()&types.IsString != 0 {
		if op == token.ADD {
			return c.strConcat(st, l, r)
		}
	}
	switch op {
	case token.SHL, token.SHR:
		if _, signed, ok := intInfo(rt); ok && signed && r.Val == nil {
			c.panicObl(st, "negative-shift", text, pos, c.cmp(token.GEQ, r, c.numLit(bigInt(0), rt), rt))
		}
		return c.shift(op, l, r, t, rt)
	case token.QUO, token.REM:
		if _, _, ok := intInfo(t); ok {
			c.panicObl(st, "div-by-zero", text, pos, mkNot(mkEq(r, c.numLit(bigInt(0), t))))
		}
	}
	return c.binop(op, l, r, t)
}

// evalGuarded evaluates e under the additional path condition g, merging any state effects.
func (c *VC) evalGuarded(st *State, e ast.Expr, g *Term) *Term {
	sub := st.clone()
	sub.pc = mkAnd(st.pc, g)
	r := c.evalCond(sub, e)
	// merge effects
	heapsChanged := sub.alloc != st.alloc || len(sub.heaps) != len(st.heaps)
	if !heapsChanged {
		for k, v := range sub.heaps {
			if st.heaps[k] != v {
				heapsChanged = true
				break
			}
		}
	}
	if heapsChanged {
		other := st.clone()
		other.pc = mkAnd(st.pc, mkNot(g))
		// sub.pc may have been strengthened by panic obligations; that is fine
		m := c.merge(sub, other)
		env := st.env
		st.set(m)
		for k, v := range env {
			if _, ok := st.env[k]; !ok {
				st.env[k] = v
			}
		}
	} else if sub.pc != mkAnd(st.pc, g) {
		// panic obligations strengthened the guarded path: pc := pc && (g => extra)
		// conservative: keep st.pc (the obligations were already emitted)
	}
	return r
}

// equal compares two values of Go type t.
func (c *VC) equal(st *State, a, b *Term, t types.Type) *Term {
	switch u := t.Underlying().(type) {
	case *types.Basic:
		if u.Info()&types.IsString != 0 {
			return c.strEqual(a, b)
		}
		if w, ok := isFloat(u); ok {
			// comparison with the constant +0.0 is exact IEEE semantics on the bit pattern: equal
			// to zero means +0 or -0 (a NaN is never equal); everything else stays uninterpreted
			isZeroLit := func(t *Term) bool { return t.Val != nil && t.Val.Sign() == 0 }
			if isZeroLit(a) || isZeroLit(b) {
				x := a
				if isZeroLit(a) {
					x = b
				}
				ut := types.Typ[types.Uint32]
				if w == 64 {
					ut = types.Typ[types.Uint64]
				}
				signBit := c.numLit(new(big.Int).Lsh(big.NewInt(1), uint(w-1)), ut)
				return mkOr(mkEq(x, c.numLit(big.NewInt(0), ut)), mkEq(x, signBit))
			}
			return c.uf("feq_"+sanitize(a.Sort.Name), sortBool, a, b)
		}
	case *types.Slice:
		// only comparison with nil is legal
		if isZeroSlice(b) {
			return mkEq(mkField(a, "sl_base"), intLit64(0))
		}
		if isZeroSlice(a) {
			return mkEq(mkField(b, "sl_base"), intLit64(0))
		}
	case *types.Array:
		if u.Len() <= 16 {
			var cs []*Term
			for i := int64(0); i < u.Len(); i++ {
				cs = append(cs, c.equal(st, mkSelect(a, c.idxLit(i)), mkSelect(b, c.idxLit(i)), u.Elem()))
			}
			return mkAnd(cs...)
		}
		return c.uf("arreq_"+sanitize(a.Sort.Name), sortBool, a, b)
	case *types.Struct:
		s := c.sortOf(t)
		var cs []*Term
		for i := 0; i < u.NumFields(); i++ {
			cs = append(cs, c.equal(st, mkField(a, s.Fields[i].Name), mkField(b, s.Fields[i].Name), u.Field(i).Type()))
		}
		return mkAnd(cs...)
	}
	if a.Sort != b.Sort {
		c.unsupportedf(token.NoPos, "comparison of differently sorted values %s / %s", a.Sort, b.Sort)
		return c.fresh("eq", sortBool)
	}
	return mkEq(a, b)
}

func isZeroSlice(t *Term) bool {
	return t.Op == "mk_sl" && len(t.Args) == 4 && t.Args[0].Val != nil && t.Args[0].Val.Sign() == 0
}

// ---------------------------------------------------------------- strings

func (c *VC) strByte(s, i *Term) *Term {
	it := types.Typ[types.Int]
	return c.sel(mkField(s, "st_arr"), c.binop(token.ADD, mkField(s, "st_off"), i, it))
}

func (c *VC) strEqual(a, b *Term) *Term {
	it := types.Typ[types.Int]
	la, lb := mkField(a, "st_len"), mkField(b, "st_len")
	// literal on one side: expand
	for k := 0; k < 2; k++ {
		x, y := a, b
		if k == 1 {
			x, y = b, a
		}
		if ly := mkField(y, "st_len"); ly.Val != nil && ly.Val.IsInt64() && ly.Val.Int64() <= 64 {
			n := ly.Val.Int64()
			cs := []*Term{mkEq(mkField(x, "st_len"), ly)}
			for i := int64(0); i < n; i++ {
				cs = append(cs, mkEq(c.strByte(x, c.idxLit(i)), c.strByte(y, c.idxLit(i))))
			}
			return mkAnd(cs...)
		}
	}
	i := c.boundVar("i", c.idxSort())
	c.varBounds[i.Op] = interval{bigInt(0), pow2(maxLenBits)}
	body := mkImplies(mkAnd(c.cmp(token.LEQ, c.idxLit(0), i, it), c.cmp(token.LSS, i, la, it)),
		mkEq(c.strByte(a, i), c.strByte(b, i)))
	return mkAnd(mkEq(la, lb), mkForall([]*Term{i}, body))
}

func (c *VC) boundVar(hint string, s *Sort) *Term {
	c.freshN++
	return mkConst(fmt.Sprintf("%s?%d", hint, c.freshN), s)
}

func (c *VC) strConcat(st *State, a, b *Term) *Term {
	it := types.Typ[types.Int]
	ss := c.strSort()
	la, lb := mkField(a, "st_len"), mkField(b, "st_len")
	if la.Val != nil && la.Val.Sign() == 0 {
		return b
	}
	if lb.Val != nil && lb.Val.Sign() == 0 {
		return a
	}
	// string values are immutable: the same operands give the same result term
	memoKey := a.String() + "\x00" + b.String()
	if r, ok := c.catMemo[memoKey]; ok && !c.noName && c.quantDepth == 0 {
		return r
	}
	arr := c.fresh("cat", ss.Fields[0].Sort)
	i := c.boundVar("i", c.idxSort())
	in := func(n *Term) *Term { return mkAnd(c.cmp(token.LEQ, c.idxLit(0), i, it), c.cmp(token.LSS, i, n, it)) }
	c.addFact(tTrue, mkForall([]*Term{i}, mkImplies(in(la), mkEq(mkSelect(arr, i), c.strByte(a, i)))))
	// second part: quantified over the absolute position in the result, so that any read of the
	// result instantiates it
	p := c.boundVar("p", c.idxSort())
	if c.mode == ModeInt {
		c.varBounds[p.Op] = interval{bigInt(0), new(big.Int).Mul(pow2(maxLenBits), bigInt(2))}
	}
	c.addFact(tTrue, mkForall([]*Term{p}, mkImplies(mkAnd(c.cmp(token.LEQ, la, p, it), c.cmp(token.LSS, p, c.binop(token.ADD, la, lb, it), it)),
		mkEq(mkSelect(arr, p), c.strByte(b, c.binop(token.SUB, p, la, it)))), mkSelect(arr, p)))
	res := mkCtor(ss, arr, c.idxLit(0), c.binop(token.ADD, la, lb, it))
	if !c.noName && c.quantDepth == 0 {
		if c.catMemo == nil {
			c.catMemo = map[string]*Term{}
		}
		c.catMemo[memoKey] = res
	}
	return res
}

// ---------------------------------------------------------------- slices and indexing

func (c *VC) sliceRead(st *State, s, i *Term, elemT types.Type) *Term {
	it := types.Typ[types.Int]
	_, h := c.sliceHeap(st, elemT)
	v := c.sel(c.sel(h, mkField(s, "sl_base")), c.binop(token.ADD, mkField(s, "sl_off"), i, it))
	return v
}

func (c *VC) inBounds(i, n *Term) *Term {
	it := types.Typ[types.Int]
	return mkAnd(c.cmp(token.LEQ, c.idxLit(0), i, it), c.cmp(token.LSS, i, n, it))
}

func (c *VC) toIdx(v *Term, t types.Type) *Term {
	if _, _, ok := intInfo(t); !ok {
		return v
	}
	w, signed, _ := intInfo(t)
	if c.mode == ModeBV && w == 64 && !signed {
		return v // reinterpretation; a huge unsigned index fails the bounds check as negative
	}
	return c.convertInt(v, t, types.Typ[types.Int])
}

func (c *VC) evalIndex(st *State, e *ast.IndexExpr) *Term {
	view := c.cur().view
	if tv, ok := view.typeOf(e.X); ok {
		if _, isSig := tv.Type.Underlying().(*types.Signature); isSig {
			return c.eval(st, e.X) // generic instantiation
		}
	}
	xt := c.typeOf(e.X)
	text := exprText(c.prog.fset, e)
	switch u := xt.Underlying().(type) {
	case *types.Slice:
		s := c.eval(st, e.X)
		i := c.toIdx(c.eval(st, e.Index), c.typeOf(e.Index))
		c.panicObl(st, "index", text, e.Pos(), c.inBounds(i, mkField(s, "sl_len")))
		v := c.sliceRead(st, s, i, u.Elem())
		c.readFact(st, v, u.Elem())
		return v
	case *types.Array:
		if a, t, ok := c.locate(st, e); ok {
			return c.loadPlace(st, a, t)
		}
		a := c.eval(st, e.X)
		i := c.toIdx(c.eval(st, e.Index), c.typeOf(e.Index))
		c.panicObl(st, "index", text, e.Pos(), c.inBounds(i, c.idxLit(u.Len())))
		v := c.sel(a, i)
		c.readFact(st, v, u.Elem())
		return v
	case *types.Pointer:
		if _, ok := u.Elem().Underlying().(*types.Array); ok {
			if a, t, ok := c.locate(st, e); ok {
				return c.loadPlace(st, a, t)
			}
		}
	case *types.Basic:
		if u.Info()&types.IsString != 0 {
			s := c.eval(st, e.X)
			i := c.toIdx(c.eval(st, e.Index), c.typeOf(e.Index))
			c.panicObl(st, "index", text, e.Pos(), c.inBounds(i, mkField(s, "st_len")))
			v := c.strByte(s, i)
			c.readFact(st, v, types.Typ[types.Uint8])
			return v
		}
	case *types.Map:
		if mt, ok := c.mapModelled(xt); ok {
			h := c.eval(st, e.X)
			k := c.coerce(st, c.eval(st, e.Index), c.typeOf(e.Index), mt.Key())
			k = c.mapKey(mt, k)
			v, _ := c.mapRead(st, mt, h, k)
			return v
		}
		c.eval(st, e.X)
		c.eval(st, e.Index)
		v := c.fresh("mapv", c.sortOf(u.Elem()))
		c.addFact(tTrue, c.wfAt(st, v, u.Elem()))
		return v
	}
	c.unsupportedf(e.Pos(), "index expression on %s", xt)
	return c.fresh("idx", c.sortOf(c.typeOf(e)))
}

// readFact adds the type invariant of a value read from memory.
func (c *VC) readFact(st *State, v *Term, t types.Type) {
	if c.mode == ModeInt || needsWF(t) {
		w := c.wfAt(st, v, t)
		if !isTrue(w) {
			key := "rf:" + v.String()
			if c.noName || c.quantDepth > 0 {
				return // facts created under a binder are discarded by the caller
			}
			if len(key) < 400 {
				if c.specAxioms[key] {
					return
				}
				c.specAxioms[key] = true
			}
			c.addFact(tTrue, w)
		}
	}
}

func (c *VC) evalSliceExpr(st *State, e *ast.SliceExpr) *Term {
	it := types.Typ[types.Int]
	xt := c.typeOf(e.X)
	text := exprText(c.prog.fset, e)
	idx := func(x ast.Expr, def *Term) *Term {
		if x == nil {
			return def
		}
		return c.toIdx(c.eval(st, x), c.typeOf(x))
	}
	switch u := xt.Underlying().(type) {
	case *types.Slice:
		s := c.eval(st, e.X)
		lo := idx(e.Low, c.idxLit(0))
		hi := idx(e.High, mkField(s, "sl_len"))
		mx := idx(e.Max, mkField(s, "sl_cap"))
		lo, hi, mx = c.nameVal("lo", lo), c.nameVal("hi", hi), c.nameVal("mx", mx)
		c.panicObl(st, "slice", text, e.Pos(), mkAnd(
			c.cmp(token.LEQ, c.idxLit(0), lo, it), c.cmp(token.LEQ, lo, hi, it), c.cmp(token.LEQ, hi, mx, it), c.cmp(token.LEQ, mx, mkField(s, "sl_cap"), it)))
		return mkCtor(c.sliceSort(), mkField(s, "sl_base"), c.binop(token.ADD, mkField(s, "sl_off"), lo, it),
			c.binop(token.SUB, hi, lo, it), c.binop(token.SUB, mx, lo, it))
	case *types.Basic:
		if u.Info()&types.IsString != 0 {
			s := c.eval(st, e.X)
			lo := idx(e.Low, c.idxLit(0))
			hi := idx(e.High, mkField(s, "st_len"))
			lo, hi = c.nameVal("lo", lo), c.nameVal("hi", hi)
			c.panicObl(st, "slice", text, e.Pos(), mkAnd(
				c.cmp(token.LEQ, c.idxLit(0), lo, it), c.cmp(token.LEQ, lo, hi, it), c.cmp(token.LEQ, hi, mkField(s, "st_len"), it)))
			return mkCtor(c.strSort(), mkField(s, "st_arr"), c.binop(token.ADD, mkField(s, "st_off"), lo, it), c.binop(token.SUB, hi, lo, it))
		}
	case *types.Array:
		// slicing a package-level array: a fixed backing array allocated before the call
		if id, ok := ast.Unparen(e.X).(*ast.Ident); ok {
			if gv, isVar := c.cur().view.objOf(id).(*types.Var); isVar && gv.Pkg() != nil && gv.Parent() == gv.Pkg().Scope() {
				gb := c.declare("gbase_"+sanitize(gv.Pkg().Name())+"_"+sanitize(gv.Name()), sortInt)
				if k := "gbase:" + gb.Op; !c.specAxioms[k] {
					c.specAxioms[k] = true
					c.facts = append(c.facts, mkAnd(mk("<", sortBool, intLit64(0), gb), mk("<", sortBool, gb, c.allocInit())))
				}
				n := c.idxLit(u.Len())
				lo := idx(e.Low, c.idxLit(0))
				hi := idx(e.High, n)
				mx := idx(e.Max, n)
				c.panicObl(st, "slice", text, e.Pos(), mkAnd(
					c.cmp(token.LEQ, c.idxLit(0), lo, it), c.cmp(token.LEQ, lo, hi, it), c.cmp(token.LEQ, hi, mx, it), c.cmp(token.LEQ, mx, n, it)))
				return mkCtor(c.sliceSort(), gb, lo, c.binop(token.SUB, hi, lo, it), c.binop(token.SUB, mx, lo, it))
			}
		}
		// slicing an addressable array variable that lives in a heap row
		if id, ok := ast.Unparen(e.X).(*ast.Ident); ok {
			obj := c.cur().view.objOf(id)
			if c.cur().arrBoxed[obj] {
				if _, ok := st.env[obj]; !ok {
					c.bindVar(st, obj, c.zero(obj.Type()))
				}
				hd := st.env[obj]
				n := c.idxLit(u.Len())
				lo := idx(e.Low, c.idxLit(0))
				hi := idx(e.High, n)
				mx := idx(e.Max, n)
				c.panicObl(st, "slice", text, e.Pos(), mkAnd(
					c.cmp(token.LEQ, c.idxLit(0), lo, it), c.cmp(token.LEQ, lo, hi, it), c.cmp(token.LEQ, hi, mx, it), c.cmp(token.LEQ, mx, n, it)))
				return mkCtor(c.sliceSort(), mkField(hd, "sl_base"), lo, c.binop(token.SUB, hi, lo, it), c.binop(token.SUB, mx, lo, it))
			}
		}
	case *types.Pointer:
	}
	c.unsupportedf(e.Pos(), "slice expression on %s", xt)
	r := c.fresh("slc", c.sortOf(c.typeOf(e)))
	c.addFact(tTrue, c.wfAt(st, r, c.typeOf(e)))
	return r
}

// ---------------------------------------------------------------- selectors / fields

func (c *VC) evalSelector(st *State, e *ast.SelectorExpr) *Term {
	view := c.cur().view
	sel := view.selection(e)
	if sel == nil {
		// qualified identifier pkg.Name
		return c.evalIdent(st, e.Sel)
	}
	switch sel.Kind() {
	case types.FieldVal:
		if a, t, ok := c.locate(st, e); ok {
			return c.loadPlace(st, a, t)
		}
		base := c.eval(st, e.X)
		return c.fieldPath(st, base, c.typeOf(e.X), sel.Index(), e.Pos(), exprText(c.prog.fset, e))
	case types.MethodVal, types.MethodExpr:
		c.unsupportedf(e.Pos(), "method value")
		return c.fresh("mval", sortInt)
	}
	return c.fresh("sel", c.sortOf(c.typeOf(e)))
}

func (c *VC) evalCompositeLit(st *State, e *ast.CompositeLit) *Term {
	t := c.typeOf(e)
	switch u := t.Underlying().(type) {
	case *types.Struct:
		s := c.sortOf(t)
		args := make([]*Term, u.NumFields())
		for i := range args {
			args[i] = c.zero(u.Field(i).Type())
		}
		for i, el := range e.Elts {
			if kv, ok := el.(*ast.KeyValueExpr); ok {
				name := kv.Key.(*ast.Ident).Name
				for j := 0; j < u.NumFields(); j++ {
					if u.Field(j).Name() == name {
						args[j] = c.coerce(st, c.evalElt(st, kv.Value, u.Field(j).Type()), c.typeOf(kv.Value), u.Field(j).Type())
					}
				}
			} else {
				args[i] = c.coerce(st, c.evalElt(st, el, u.Field(i).Type()), c.typeOf(el), u.Field(i).Type())
			}
		}
		return mkCtor(s, args...)
	case *types.Array:
		arr := c.zero(t)
		next := int64(0)
		for _, el := range e.Elts {
			val := el
			if kv, ok := el.(*ast.KeyValueExpr); ok {
				if tv, ok := c.cur().view.typeOf(kv.Key); ok && tv.Value != nil {
					k, _ := constant.Int64Val(tv.Value)
					next = k
				}
				val = kv.Value
			}
			arr = mkStore(arr, c.idxLit(next), c.coerce(st, c.evalElt(st, val, u.Elem()), c.typeOf(val), u.Elem()))
			next++
		}
		return arr
	case *types.Slice:
		es := c.sortOf(u.Elem())
		row := mk(fmt.Sprintf("(as const %s)", arraySort(c.idxSort(), es).Name), arraySort(c.idxSort(), es), c.zero(u.Elem()))
		next, max := int64(0), int64(0)
		for _, el := range e.Elts {
			val := el
			if kv, ok := el.(*ast.KeyValueExpr); ok {
				if tv, ok := c.cur().view.typeOf(kv.Key); ok && tv.Value != nil {
					k, _ := constant.Int64Val(tv.Value)
					next = k
				}
				val = kv.Value
			}
			row = mkStore(row, c.idxLit(next), c.coerce(st, c.evalElt(st, val, u.Elem()), c.typeOf(val), u.Elem()))
			next++
			if next > max {
				max = next
			}
		}
		base := st.alloc
		st.alloc = c.name("alloc", mk("+", sortInt, st.alloc, intLit64(1)))
		hn, h := c.sliceHeap(st, u.Elem())
		st.heaps[hn] = mkStore(h, base, row)
		n := c.idxLit(max)
		return mkCtor(c.sliceSort(), base, c.idxLit(0), n, n)
	case *types.Map:
		if mt, ok := c.mapModelled(t); ok {
			h := c.mapMake(st, mt)
			for _, el := range e.Elts {
				kv, ok := el.(*ast.KeyValueExpr)
				if !ok {
					continue
				}
				k := c.mapKey(mt, c.coerce(st, c.eval(st, kv.Key), c.typeOf(kv.Key), mt.Key()))
				v := c.coerce(st, c.evalElt(st, kv.Value, mt.Elem()), c.typeOf(kv.Value), mt.Elem())
				c.mapWrite(st, mt, h, k, v, kv.Pos(), exprText(c.prog.fset, kv))
			}
			return h
		}
		return c.fresh("maplit", sortInt)
	}
	c.unsupportedf(e.Pos(), "composite literal of %s", t)
	return c.fresh("lit", c.sortOf(t))
}

func (c *VC) evalElt(st *State, e ast.Expr, t types.Type) *Term {
	if cl, ok := e.(*ast.CompositeLit); ok && cl.Type == nil {
		// elided type
		if p, isPtr := t.Underlying().(*types.Pointer); isPtr {
			_ = p
			v := c.evalCompositeLit(st, cl)
			return c.allocObj(st, p.Elem(), v)
		}
	}
	return c.eval(st, e)
}

// ---------------------------------------------------------------- assignment

func (c *VC) assign(st *State, lhs ast.Expr, v *Term) {
	it := types.Typ[types.Int]
	switch ast.Unparen(lhs).(type) {
	case *ast.StarExpr, *ast.SelectorExpr, *ast.IndexExpr:
		if a, t, ok := c.locate(st, lhs); ok {
			c.storeAt(st, a, t, v, lhs.Pos(), exprText(c.prog.fset, lhs))
			return
		}
	}
	switch l := ast.Unparen(lhs).(type) {
	case *ast.Ident:
		if l.Name == "_" {
			return
		}
		obj := c.cur().view.objOf(l)
		if obj == nil {
			return
		}
		c.monotoneCheck(st, l, obj, v)
		c.writeVar(st, obj, v)
	case *ast.StarExpr:
		c.unsupportedf(l.Pos(), "store through %s", exprText(c.prog.fset, l))
	case *ast.SelectorExpr:
		sel := c.cur().view.selection(l)
		if sel == nil || sel.Kind() != types.FieldVal {
			c.unsupportedf(l.Pos(), "assignment to %s", exprText(c.prog.fset, l))
			return
		}
		c.assignPath(st, l.X, c.typeOf(l.X), sel.Index(), v, l.Pos(), exprText(c.prog.fset, l))
	case *ast.IndexExpr:
		xt := c.typeOf(l.X)
		text := exprText(c.prog.fset, l)
		switch u := xt.Underlying().(type) {
		case *types.Slice:
			s := c.eval(st, l.X)
			i := c.toIdx(c.eval(st, l.Index), c.typeOf(l.Index))
			c.panicObl(st, "index", text, l.Pos(), c.inBounds(i, mkField(s, "sl_len")))
			hn, h := c.sliceHeap(st, u.Elem())
			base := mkField(s, "sl_base")
			row := c.sel(h, base)
			wi := c.binop(token.ADD, mkField(s, "sl_off"), i, it)
			c.guardSliceValue(st, v, u.Elem(), c.sel(row, wi), l.Pos(), text)
			c.checkWrite(st, hn, base, wi, c.binop(token.ADD, wi, c.idxLit(1), it), l.Pos(), text)
			st.heaps[hn] = c.name(hn, mkStore(h, base, mkStore(row, wi, v)))
		case *types.Array:
			a := c.eval(st, l.X)
			i := c.toIdx(c.eval(st, l.Index), c.typeOf(l.Index))
			c.panicObl(st, "index", text, l.Pos(), c.inBounds(i, c.idxLit(u.Len())))
			c.assign(st, l.X, mkStore(a, i, v))
		case *types.Pointer:
			c.unsupportedf(l.Pos(), "index assignment on %s", xt)
		case *types.Map:
			if mt, ok := c.mapModelled(xt); ok {
				h := c.eval(st, l.X)
				k := c.coerce(st, c.eval(st, l.Index), c.typeOf(l.Index), mt.Key())
				k = c.mapKey(mt, k)
				c.monotoneMapStore = false
				if len(c.frames) == 1 {
					d := c.fn.Dir
					if c.fn.Contract != nil {
						d = c.fn.Contract.Dir
					}
					if d != nil && d.InsertOnlyMap[exprText(c.prog.fset, l.X)] {
						// `insert-only-map m`: a store never replaces an existing entry (first one wins)
						_, present := c.mapRead(st, mt, h, k)
						c.addObl("own/insert-only-map", text+": the key is not in the map yet", l.Pos(), st.pc, mkNot(present))
					}
				}
				if id, ok := ast.Unparen(l.X).(*ast.Ident); ok && len(c.frames) == 1 {
					d := c.fn.Dir
					if c.fn.Contract != nil {
						d = c.fn.Contract.Dir
					}
					if d != nil && d.MonotoneMap[id.Name] {
						c.monotoneMapStore = true
					}
				}
				c.mapWrite(st, mt, h, k, v, l.Pos(), text)
				c.monotoneMapStore = false
				return
			}
			c.eval(st, l.X)
			c.eval(st, l.Index)
		default:
			c.unsupportedf(l.Pos(), "index assignment on %s", xt)
		}
	default:
		c.unsupportedf(lhs.Pos(), "assignment target %T", lhs)
	}
}


// monotoneCheck: `//@ monotone-false x` declares that the boolean local x only ever goes from true
// to false (a "still fine" flag): every assignment must store a value that implies the old one.
func (c *VC) monotoneCheck(st *State, id *ast.Ident, obj types.Object, v *Term) {
	if c.ghost > 0 || len(c.frames) != 1 || st.dead() {
		return
	}
	d := c.fn.Dir
	if c.fn.Contract != nil {
		d = c.fn.Contract.Dir
	}
	if d == nil || !d.MonotoneFalse[id.Name] || v.Sort != sortBool {
		return
	}
	old, ok := st.env[obj]
	if !ok || c.cur().boxed[obj] {
		return
	}
	c.addObl("own/monotone", id.Name+" only goes from true to false", id.Pos(), st.pc, mkImplies(v, old))
}
