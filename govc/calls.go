package main

// Calls: conversions, builtins, ghost builtins (contract vocabulary), intrinsics,
// calls by contract, inlining, havoc.

import (
	"fmt"
	"go/ast"
	"go/constant"
	"go/token"
	"go/types"
	"math/big"
	"os"
	"regexp"
	"sort"
	"strings"
)

var ghostBuiltins = map[string]bool{
	"requires": true, "domain": true, "ensures": true, "ensuresGoal": true, "ensuresTrusted": true, "assert": true, "assume": true, "imp": true, "iff": true, "old": true,
	"forall": true, "exists": true, "forallIn": true, "existsIn": true, "forallStr": true, "modifiesTail": true, "modifiesElems": true, "modifiesPtr": true, "modifiesAll": true, "modifiesMap": true,
	"freshSlice": true, "sameBase": true, "sameArray": true, "suffixOf": true, "viewOf": true, "offsetIn": true, "disjointFromTail": true, "bytesEq": true, "strBytesEq": true, "allocated": true, "sameOrDisjoint": true, "unchangedElems": true, "identical": true, "arg": true, "recv": true, "localBool": true, "called": true,
	"covers": true,
}

type modSpec struct {
	kind  string // tail, elems, ptr, all
	v     *Term
	elemS *Sort      // slice element sort / pointee sort / map key sort
	valS  *Sort      // map value sort
	typ   types.Type // pointee type (ptr) / slice element type (tail, elems)
}

type contractRun struct {
	phase    int // 1 = pre, 2 = post
	old      *State
	onReq    func(text string, pos token.Pos, st *State, t *Term)
	onEns    func(text string, pos token.Pos, st *State, t *Term)
	mods     []modSpec
	hasMods  bool
	isLemma  bool
	asCallee bool
	own      bool // the contract of the function being verified (its requires are assumed)
}

func (c *VC) staticCallee(call *ast.CallExpr) *types.Func {
	view := c.cur().view
	switch f := ast.Unparen(call.Fun).(type) {
	case *ast.Ident:
		if fn, ok := view.objOf(f).(*types.Func); ok {
			return fn.Origin()
		}
	case *ast.SelectorExpr:
		if sel := view.selection(f); sel != nil {
			if sel.Kind() == types.MethodVal {
				if fn, ok := sel.Obj().(*types.Func); ok {
					if _, isIface := sel.Recv().Underlying().(*types.Interface); isIface {
						return nil
					}
					return fn.Origin()
				}
			}
			return nil
		}
		if fn, ok := view.objOf(f.Sel).(*types.Func); ok {
			return fn.Origin()
		}
	case *ast.IndexExpr:
		if id, ok := f.X.(*ast.Ident); ok {
			if fn, ok := view.objOf(id).(*types.Func); ok {
				return fn.Origin()
			}
		}
	}
	return nil
}

func fullName(fn *types.Func) string {
	if fn.Pkg() == nil {
		return fn.Name()
	}
	sig := fn.Type().(*types.Signature)
	if r := sig.Recv(); r != nil {
		t := r.Type()
		if p, ok := t.(*types.Pointer); ok {
			t = p.Elem()
		}
		tn := types.TypeString(t, func(*types.Package) string { return "" })
		if i := strings.Index(tn, "["); i >= 0 {
			tn = tn[:i]
		}
		return fn.Pkg().Path() + "." + tn + "." + fn.Name()
	}
	return fn.Pkg().Path() + "." + fn.Name()
}

var defaultPure = map[string]bool{
	"unicode/utf8.Valid": true, "unicode/utf8.ValidString": true, "unicode/utf8.RuneLen": true, "unicode/utf8.ValidRune": true,
	"unicode/utf8.FullRune": true, "unicode/utf8.RuneCount": true, "unicode/utf8.RuneCountInString": true,
	"unicode.IsLetter": true, "unicode.IsDigit": true, "unicode.IsUpper": true, "unicode.IsLower": true, "unicode.IsSpace": true,
	"unicode.ToUpper": true, "unicode.ToLower": true, "unicode.IsPrint": true, "unicode.IsGraphic": true,
	"bytes.Equal": true, "bytes.HasPrefix": true, "bytes.IndexByte": true, "bytes.Compare": true,
	"strings.HasPrefix": true, "strings.HasSuffix": true, "strings.IndexByte": true, "strings.Contains": true, "strings.Index": true,
	"strings.ContainsRune": true, "strings.IndexRune": true, "strings.ContainsAny": true, "strings.Compare": true, "strings.EqualFold": true,
	"math.IsNaN": true, "math.IsInf": true, "math.Signbit": true, "math.Abs": true, "math.Float32bits": true,
	"fmt.Sprintf": true, "fmt.Sprint": true, "fmt.Errorf": true, "errors.New": true, "strconv.Itoa": true, "strconv.Quote": true,
	"strconv.ParseInt": true, "strconv.ParseUint": true, "strconv.ParseFloat": true, "strconv.FormatInt": true, "strconv.FormatUint": true,
	"google.golang.org/protobuf/internal/errors.New": true, "google.golang.org/protobuf/internal/errors.Error": true,
	"google.golang.org/protobuf/internal/errors.InvalidUTF8": true, "google.golang.org/protobuf/internal/errors.RequiredNotSet": true,
	"google.golang.org/protobuf/internal/errors.Wrap": true,
	"time.Unix": true, "time.Time.Unix": true, "time.Time.Nanosecond": true, "time.Time.UTC": true, "time.Duration.Nanoseconds": true,
	"go/token.Lookup": true, "go/token.IsKeyword": true,
}

func (c *VC) isPureName(fn *types.Func) bool {
	n := fullName(fn)
	return defaultPure[n] || c.prog.pure[n] || c.prog.pure[funcQualName(fn)]
}

func (c *VC) shouldInline(fi *FuncInfo) bool {
	if fi.Decl == nil || fi.Decl.Body == nil {
		return false
	}
	d := c.fn.Dir
	if d != nil && (d.Inline[fi.Name] || d.Inline[fi.Obj.Name()]) {
		return true
	}
	if c.fn.Contract != nil {
		if d := c.fn.Contract.Dir; d.Inline[fi.Name] || d.Inline[fi.Obj.Name()] {
			return true
		}
	}
	if fi.Kind == "spec" && !fi.Dir.Opaque {
		return true
	}
	if c.prog.inlineAlways[fi.Name] {
		return true
	}
	return false
}

func (c *VC) evalCall(st *State, call *ast.CallExpr) []*Term {
	c.callSiteAsserts(st, call)
	rs := c.evalCall1(st, call)
	if c.ghost == 0 && len(c.frames) == 1 && !st.dead() {
		if text := exprText(c.prog.fset, call.Fun); c.calledTexts()[text] {
			if st.flags == nil {
				st.flags = map[string]*Term{}
			}
			st.flags[text] = tTrue
		}
	}
	c.callbackEffects(st, call)
	if c.pendErr != nil && c.ghost == 0 && len(c.frames) == 1 {
		if pend, ok := st.env[c.pendErr]; ok {
			for i, rt := range c.resultTypes(call) {
				if i < len(rs) && types.Identical(rt, types.Universe.Lookup("error").Type()) {
					pend = c.name("pendErr", mkOr(pend, mkNot(mkEq(rs[i], intLit64(0)))))
				}
			}
			st.env[c.pendErr] = pend
		}
	}
	return rs
}

func (c *VC) evalCall1(st *State, call *ast.CallExpr) []*Term {
	view := c.cur().view
	// conversion
	if tv, ok := view.typeOf(call.Fun); ok && tv.IsType() {
		return []*Term{c.convert(st, call.Args[0], tv.Type, call)}
	}
	if id, ok := ast.Unparen(call.Fun).(*ast.Ident); ok {
		if b, ok := view.objOf(id).(*types.Builtin); ok {
			return c.builtin(st, b.Name(), call)
		}
	}
	fn := c.staticCallee(call)
	if fn != nil {
		fi := c.prog.funcs[fn]
		if fi != nil && fi.Ghost && ghostBuiltins[fn.Name()] {
			return c.ghostBuiltin(st, fn.Name(), call)
		}
		if fi != nil && fi.Kind == "spec" && (c.isAbstract(fi) || fi.Dir.Uninterp) {
			args, _ := c.evalArgs(st, fn, call)
			return c.specUFNoAxiom(st, fi, args)
		}
		if fi != nil && fi.Kind == "spec" && fi.Dir.Opaque {
			args, _ := c.evalArgs(st, fn, call)
			return c.specUF(st, fi, args)
		}
		if r, ok := c.intrinsic(st, fn, call); ok {
			return r
		}
		args, ok := c.evalArgs(st, fn, call)
		if ok && fi != nil && fi.Kind == "lemma" {
			return c.callLemma(st, fi, args, call)
		}
		if ok && fi != nil {
			if fi.Contract != nil && !c.shouldInline(fi) {
				return c.callByContract(st, fi, args, call)
			}
			if c.shouldInline(fi) {
				return c.inlineCall(st, fi, args, call)
			}
		}
		return c.havocCall(st, fn, args, call)
	}
	// interface method declared pure (//@ pure pkg.Iface.Method): an uninterpreted function of
	// the receiver value and the arguments
	if se, ok := ast.Unparen(call.Fun).(*ast.SelectorExpr); ok {
		if sel := view.selection(se); sel != nil && sel.Kind() == types.MethodVal {
			if im, ok := sel.Obj().(*types.Func); ok {
				if _, isIface := sel.Recv().Underlying().(*types.Interface); isIface && c.isPureName(im) {
					if args, ok := c.evalArgs(st, im, call); ok {
						return c.havocCall(st, im, args, call)
					}
				}
			}
		}
	}
	// dynamic: call of a function literal bound in this frame?
	if id, ok := ast.Unparen(call.Fun).(*ast.Ident); ok {
		if obj := view.objOf(id); obj != nil {
			if v, ok := st.env[obj]; ok {
				if lit := c.cur().lits[v.Op]; lit != nil && c.inlineDepth < 8 {
					return c.inlineLit(st, lit, call)
				}
			}
		}
	}
	if lit, ok := ast.Unparen(call.Fun).(*ast.FuncLit); ok && c.inlineDepth < 8 {
		return c.inlineLit(st, lit, call)
	}
	// call through a func-typed variable declared pure for this VC (//@ pure-funcvalues): an
	// uninterpreted function of the func value and the arguments
	if id, ok := ast.Unparen(call.Fun).(*ast.Ident); ok && c.pureFuncValues() {
		if v, ok := view.objOf(id).(*types.Var); ok && !v.IsField() {
			if _, isSig := v.Type().Underlying().(*types.Signature); isSig {
				c.assumptions["calls through func-typed variables are pure (the callback's result depends only on its arguments): assumed for this function's contract"] = true
				uargs := []*Term{c.eval(st, id)}
				for _, a := range call.Args {
					uargs = append(uargs, c.eval(st, a))
				}
				var res []*Term
				for i, rt := range c.resultTypes(call) {
					r := c.uf(fmt.Sprintf("funcval_%s_%d", sanitize(types.TypeString(v.Type(), nil)), i), c.sortOf(rt), uargs...)
					res = append(res, r)
				}
				return res
			}
		}
	}
	// evaluate operands for effects then havoc
	c.evalFunOperand(st, call.Fun)
	var args []*Term
	for _, a := range call.Args {
		args = append(args, c.eval(st, a))
	}
	return c.havocDynamic(st, call, args)
}

func (c *VC) evalFunOperand(st *State, f ast.Expr) {
	switch f := ast.Unparen(f).(type) {
	case *ast.SelectorExpr:
		if sel := c.cur().view.selection(f); sel != nil {
			c.eval(st, f.X)
		}
	}
}

// evalArgs evaluates receiver (if any) and arguments, coercing to parameter types.
func (c *VC) evalArgs(st *State, fn *types.Func, call *ast.CallExpr) ([]*Term, bool) {
	sig := fn.Type().(*types.Signature)
	var args []*Term
	if sig.Recv() != nil {
		se, ok := ast.Unparen(call.Fun).(*ast.SelectorExpr)
		if !ok {
			return nil, false
		}
		sel := c.cur().view.selection(se)
		xt := c.typeOf(se.X)
		_, recvIsPtr := sig.Recv().Type().(*types.Pointer)
		var rv *Term
		path := sel.Index()
		path = path[:len(path)-1] // embedded hops
		_, xIsPtr := xt.Underlying().(*types.Pointer)
		if recvIsPtr && !xIsPtr && len(path) == 0 {
			rv = c.addressOf(st, se.X)
		} else {
			rv = c.eval(st, se.X)
			if len(path) > 0 {
				rv = c.fieldPath(st, rv, xt, path, se.Pos(), exprText(c.prog.fset, se))
				// the promoted method's receiver is the embedded field: usable as it is when the field
				// and the receiver agree on pointer-ness, dereferenced for a value receiver on an
				// embedded pointer; taking the address of an embedded value is not modelled
				et := xt
				for _, idx := range path {
					if p, ok := et.Underlying().(*types.Pointer); ok {
						et = p.Elem()
					}
					et = et.Underlying().(*types.Struct).Field(idx).Type()
				}
				_, embIsPtr := et.Underlying().(*types.Pointer)
				switch {
				case embIsPtr == recvIsPtr:
				case embIsPtr && !recvIsPtr:
					rv = c.deref(st, rv, et.Underlying().(*types.Pointer).Elem(), se.Pos(), exprText(c.prog.fset, se.X))
				default:
					// pointer receiver on an embedded value: its address is not modelled; an unknown
					// (non-nil) pointer stands for it
					c.unsupportedf(se.Pos(), "method call through embedded field")
					if xIsPtr {
						// the embedded value lives at a fixed place inside *x: the same x gives the same address
						rv = c.uf("embaddr_"+sanitize(fmt.Sprint(path)), sortInt, c.eval(st, se.X))
					} else {
						rv = c.fresh("embrecv", sortInt)
					}
					c.addFact(tTrue, mk(">", sortBool, rv, intLit64(0)))
				}
			} else if !recvIsPtr && xIsPtr {
				rv = c.deref(st, rv, xt.Underlying().(*types.Pointer).Elem(), se.Pos(), exprText(c.prog.fset, se.X))
			}
		}
		args = append(args, rv)
	}
	np := sig.Params().Len()
	if sig.Variadic() {
		if call.Ellipsis.IsValid() && len(call.Args) == np {
			for i, a := range call.Args {
				v := c.eval(st, a)
				args = append(args, c.coerce(st, v, c.typeOf(a), sig.Params().At(i).Type()))
			}
			return args, true
		}
		for i := 0; i < np-1 && i < len(call.Args); i++ {
			v := c.eval(st, call.Args[i])
			args = append(args, c.coerce(st, v, c.typeOf(call.Args[i]), sig.Params().At(i).Type()))
		}
		for i := np - 1; i < len(call.Args); i++ {
			c.eval(st, call.Args[i])
		}
		// variadic tail as an opaque fresh slice
		vt := sig.Params().At(np - 1).Type()
		tail := c.fresh("variadic", c.sortOf(vt))
		c.addFact(tTrue, c.wfAt(st, tail, vt))
		args = append(args, tail)
		return args, true
	}
	if len(call.Args) == 1 && np > 1 {
		// f(g()) with multi-value g
		vals := c.evalMulti(st, call.Args[0])
		args = append(args, vals...)
		return args, len(vals) == np
	}
	for i, a := range call.Args {
		v := c.eval(st, a)
		if i < np {
			v = c.coerce(st, v, c.typeOf(a), sig.Params().At(i).Type())
		}
		args = append(args, v)
	}
	return args, true
}

// ---------------------------------------------------------------- conversions

func (c *VC) convert(st *State, arg ast.Expr, to types.Type, call *ast.CallExpr) *Term {
	from := c.typeOf(arg)
	if b, ok := from.Underlying().(*types.Basic); ok && b.Kind() == types.UntypedNil {
		return c.zero(to)
	}
	v := c.eval(st, arg)
	it := types.Typ[types.Int]
	fu, tu := from.Underlying(), to.Underlying()
	if _, _, ok := intInfo(fu); ok {
		if _, _, ok2 := intInfo(tu); ok2 {
			return c.convertInt(v, from, to)
		}
		if _, ok2 := isFloat(tu); ok2 {
			return c.convertInt(v, from, to)
		}
		if tb, ok2 := tu.(*types.Basic); ok2 && tb.Info()&types.IsString != 0 {
			// string(rune): the UTF-8 encoding of the rune (U+FFFD for an invalid one): 1 to 4 bytes,
			// one byte (the rune itself) exactly for runes below 0x80 (language specification)
			rv := c.convertInt(v, from, types.Typ[types.Int64])
			ss := c.strSort()
			sv := mkCtor(ss, c.uf("string_of_rune_text", ss.Fields[0].Sort, rv), c.idxLit(0), c.uf("string_of_rune_len", c.idxSort(), rv))
			if !c.noName && c.quantDepth == 0 {
				key := "sr:" + sv.String()
				if !c.specAxioms[key] {
					c.specAxioms[key] = true
					it := types.Typ[types.Int]
					i64 := types.Typ[types.Int64]
					u8 := types.Typ[types.Uint8]
					ln := mkField(sv, "st_len")
					ascii := mkAnd(c.cmp(token.LEQ, c.numLit(bigInt(0), i64), rv, i64), c.cmp(token.LSS, rv, c.numLit(bigInt(0x80), i64), i64))
					c.addFact(tTrue, mkAnd(c.cmp(token.LEQ, c.idxLit(1), ln, it), c.cmp(token.LEQ, ln, c.idxLit(4), it)))
					if c.mode == ModeInt {
						c.addFact(tTrue, mkIte(ascii, mkAnd(mkEq(ln, c.idxLit(1)), mkEq(c.convertInt(c.strByte(sv, c.idxLit(0)), u8, i64), rv)),
							mkAnd(c.cmp(token.LEQ, c.idxLit(2), ln, it),
								c.cmp(token.GEQ, c.strByte(sv, c.idxLit(0)), c.numLit(bigInt(0x80), u8), u8),
								c.cmp(token.GEQ, c.strByte(sv, c.idxLit(1)), c.numLit(bigInt(0x80), u8), u8),
								mkImplies(c.cmp(token.LSS, c.idxLit(2), ln, it), c.cmp(token.GEQ, c.strByte(sv, c.idxLit(2)), c.numLit(bigInt(0x80), u8), u8)),
								mkImplies(c.cmp(token.LSS, c.idxLit(3), ln, it), c.cmp(token.GEQ, c.strByte(sv, c.idxLit(3)), c.numLit(bigInt(0x80), u8), u8)))))
					}
				}
			}
			return sv
		}
	}
	if _, ok := isFloat(fu); ok {
		return c.convertInt(v, from, to)
	}
	fb, fIsBasic := fu.(*types.Basic)
	tb, tIsBasic := tu.(*types.Basic)
	if fIsBasic && fb.Info()&types.IsString != 0 {
		if tIsBasic && tb.Info()&types.IsString != 0 {
			return v
		}
		if ts, ok := tu.(*types.Slice); ok {
			if eb, ok := ts.Elem().Underlying().(*types.Basic); ok && eb.Kind() == types.Uint8 {
				// []byte(s): fresh row holding s's array
				base := st.alloc
				st.alloc = c.name("alloc", mk("+", sortInt, st.alloc, intLit64(1)))
				hn, h := c.sliceHeap(st, types.Typ[types.Uint8])
				st.heaps[hn] = mkStore(h, base, mkField(v, "st_arr"))
				ln := mkField(v, "st_len")
				// an empty string converts to an empty non-nil slice
				return mkCtor(c.sliceSort(), base, mkField(v, "st_off"), ln, ln)
			}
		}
	}
	if fs, ok := fu.(*types.Slice); ok {
		if tIsBasic && tb.Info()&types.IsString != 0 {
			if eb, ok := fs.Elem().Underlying().(*types.Basic); ok && eb.Kind() == types.Uint8 {
				_, h := c.sliceHeap(st, types.Typ[types.Uint8])
				return mkCtor(c.strSort(), c.sel(h, mkField(v, "sl_base")), mkField(v, "sl_off"), mkField(v, "sl_len"))
			}
		}
		if _, ok := tu.(*types.Slice); ok {
			return v
		}
	}
	_ = it
	fs, ts := c.sortOf(from), c.sortOf(to)
	if c.mode == ModeBV {
		// addresses are mathematical integers, uintptr is a 64-bit vector: bridge with a pair of
		// mutually inverse uninterpreted functions (see bridgeAxioms)
		if isPointerLike(from) && fs == sortInt {
			if w, _, ok := intInfo(to); ok && w == 64 {
				c.bridgeAxioms()
				return mk("ptr2bv", bvSort(64), v)
			}
		}
		if isPointerLike(to) && ts == sortInt {
			if w, _, ok := intInfo(from); ok && w == 64 {
				c.bridgeAxioms()
				return mk("bv2ptr", sortInt, v)
			}
		}
	}
	if fs == ts {
		if _, toIface := tu.(*types.Interface); toIface {
			return c.boxIface(v, from)
		}
		return v
	}
	if _, toIface := tu.(*types.Interface); toIface {
		return c.boxIface(v, from)
	}
	c.unsupportedf(call.Pos(), "conversion %s -> %s", from, to)
	r := c.fresh("conv", ts)
	c.addFact(tTrue, c.wfAt(st, r, to))
	return r
}

// bridgeAxioms declares ptr2bv / bv2ptr and states that they are mutually inverse on the
// 64-bit address range.
func (c *VC) bridgeAxioms() {
	if c.specAxioms["bridge"] {
		return
	}
	c.specAxioms["bridge"] = true
	c.declareFun("ptr2bv", []*Sort{sortInt}, bvSort(64))
	c.declareFun("bv2ptr", []*Sort{bvSort(64)}, sortInt)
	u := c.boundVar("u", bvSort(64))
	a := c.boundVar("a", sortInt)
	c.axioms = append(c.axioms,
		mkForall([]*Term{u}, mkAnd(mkEq(mk("ptr2bv", bvSort(64), mk("bv2ptr", sortInt, u)), u),
			mk("<=", sortBool, intLit64(0), mk("bv2ptr", sortInt, u)), mk("<", sortBool, mk("bv2ptr", sortInt, u), intLit(pow2(64)))), mk("bv2ptr", sortInt, u)),
		mkForall([]*Term{a}, mkImplies(mkAnd(mk("<=", sortBool, intLit64(0), a), mk("<", sortBool, a, intLit(pow2(64)))),
			mkEq(mk("bv2ptr", sortInt, mk("ptr2bv", bvSort(64), a)), a)), mk("ptr2bv", bvSort(64), a)))
	c.assumptions["addresses fit in 64 bits; uintptr <-> pointer conversion is a bijection on that range"] = true
}

// ---------------------------------------------------------------- builtins

func (c *VC) builtin(st *State, name string, call *ast.CallExpr) []*Term {
	it := types.Typ[types.Int]
	switch name {
	case "len", "cap":
		a := call.Args[0]
		t := c.typeOf(a)
		v := c.eval(st, a)
		switch u := t.Underlying().(type) {
		case *types.Slice:
			if name == "len" {
				return []*Term{mkField(v, "sl_len")}
			}
			return []*Term{mkField(v, "sl_cap")}
		case *types.Basic:
			return []*Term{mkField(v, "st_len")}
		case *types.Array:
			return []*Term{c.idxLit(u.Len())}
		case *types.Pointer:
			if at, ok := u.Elem().Underlying().(*types.Array); ok {
				return []*Term{c.idxLit(at.Len())}
			}
		case *types.Map, *types.Chan:
			if mt, ok := c.mapModelled(t); ok {
				return []*Term{c.mapLen(st, mt, v)}
			}
			n := c.fresh("maplen", c.idxSort())
			c.addFact(tTrue, mkAnd(c.cmp(token.GEQ, n, c.idxLit(0), it), c.inRange(n, it)))
			return []*Term{n}
		}
	case "append":
		return []*Term{c.builtinAppend(st, call)}
	case "copy":
		return []*Term{c.builtinCopy(st, call)}
	case "make":
		t := c.typeOf(call)
		switch u := t.Underlying().(type) {
		case *types.Slice:
			n := c.toIdx(c.eval(st, call.Args[1]), c.typeOf(call.Args[1]))
			cp := n
			if len(call.Args) > 2 {
				cp = c.toIdx(c.eval(st, call.Args[2]), c.typeOf(call.Args[2]))
			}
			mx := c.numLit(pow2(maxLenBits), it)
			c.panicObl(st, "make", exprText(c.prog.fset, call), call.Pos(), mkAnd(c.cmp(token.LEQ, c.idxLit(0), n, it), c.cmp(token.LEQ, n, cp, it), c.cmp(token.LEQ, cp, mx, it)))
			es := c.sortOf(u.Elem())
			rs := arraySort(c.idxSort(), es)
			row := mk(fmt.Sprintf("(as const %s)", rs.Name), rs, c.zero(u.Elem()))
			base := st.alloc
			st.alloc = c.name("alloc", mk("+", sortInt, st.alloc, intLit64(1)))
			hn, h := c.sliceHeap(st, u.Elem())
			st.heaps[hn] = mkStore(h, base, row)
			return []*Term{mkCtor(c.sliceSort(), base, c.idxLit(0), n, cp)}
		default:
			for _, a := range call.Args[1:] {
				c.eval(st, a)
			}
			if mt, ok := c.mapModelled(t); ok {
				return []*Term{c.mapMake(st, mt)}
			}
			m := c.fresh("made", sortInt)
			c.addFact(tTrue, mk(">", sortBool, m, intLit64(0)))
			return []*Term{m}
		}
	case "new":
		t := c.typeOf(call).Underlying().(*types.Pointer).Elem()
		return []*Term{c.allocObj(st, t, c.zero(t))}
	case "panic":
		for _, a := range call.Args {
			c.eval(st, a)
		}
		if c.ghost == 0 {
			c.panicObl(st, "explicit", exprText(c.prog.fset, call), call.Pos(), tFalse)
		}
		st.kill()
		return nil
	case "min", "max":
		t := c.typeOf(call)
		r := c.coerce(st, c.eval(st, call.Args[0]), c.typeOf(call.Args[0]), t)
		for _, a := range call.Args[1:] {
			x := c.coerce(st, c.eval(st, a), c.typeOf(a), t)
			op := token.LSS
			if name == "max" {
				op = token.GTR
			}
			r = mkIte(c.cmp(op, x, r, t), x, r)
		}
		return []*Term{r}
	case "delete", "clear", "print", "println":
		if name == "delete" {
			if mt, ok := c.mapModelled(c.typeOf(call.Args[0])); ok {
				h := c.eval(st, call.Args[0])
				k := c.mapKey(mt, c.coerce(st, c.eval(st, call.Args[1]), c.typeOf(call.Args[1]), mt.Key()))
				c.mapDelete(st, mt, h, k, call.Pos(), exprText(c.prog.fset, call))
				return nil
			}
		}
		for _, a := range call.Args {
			c.eval(st, a)
		}
		return nil
	}
	c.unsupportedf(call.Pos(), "builtin %s", name)
	t := c.typeOf(call)
	if t == nil || t == types.Typ[types.Invalid] {
		return nil
	}
	return []*Term{c.fresh(name, c.sortOf(t))}
}

// guardSliceValue: ownership guard (directive guard-slice-stores) for a slice header that is being
// stored into memory: it must be empty, allocated by this call, or (when old != nil) the previous
// value extended in place.
func (c *VC) guardSliceValue(st *State, v *Term, t types.Type, old *Term, pos token.Pos, text string) {
	if _, isSlice := t.Underlying().(*types.Slice); !isSlice || c.ghost > 0 || c.entry == nil || !pos.IsValid() {
		return
	}
	d := c.fn.Dir
	if c.fn.Contract != nil {
		d = c.fn.Contract.Dir
	}
	if d == nil || !d.GuardSliceStores {
		return
	}
	alts := []*Term{mkEq(mkField(v, "sl_len"), c.idxLit(0)), mk(">=", sortBool, mkField(v, "sl_base"), c.entry.alloc)}
	if old != nil {
		alts = append(alts, mkAnd(mkEq(mkField(v, "sl_base"), mkField(old, "sl_base")), mkEq(mkField(v, "sl_off"), mkField(old, "sl_off")), mkEq(mkField(v, "sl_cap"), mkField(old, "sl_cap"))))
	}
	c.addObl("own/slice-store", text+": the stored slice is empty, allocated by this call, or the previous value extended in place", pos, st.pc, mkOr(alts...))
}

// rowCopy returns a row equal to dst except positions [dpos, dpos+n) which hold src[spos...].
func (c *VC) rowCopy(st *State, dst *Term, dpos *Term, src *Term, spos *Term, n *Term) *Term {
	it := types.Typ[types.Int]
	if n.Val != nil && n.Val.Sign() == 0 {
		return dst
	}
	r := c.fresh("row", dst.Sort)
	i := c.boundVar("i", c.idxSort())
	in := mkAnd(c.cmp(token.LEQ, dpos, i, it), c.cmp(token.LSS, i, c.binop(token.ADD, dpos, n, it), it))
	srcIdx := c.binop(token.ADD, spos, c.binop(token.SUB, i, dpos, it), it)
	body := mkEq(mkSelect(r, i), mkIte(in, mkSelect(src, srcIdx), mkSelect(dst, i)))
	c.facts = append(c.facts, mkForall([]*Term{i}, body, mkSelect(r, i)))
	if !c.noName {
		c.rowCopies[r.Op] = rowCopyDef{dst, dpos, src, spos, n}
	}
	return r
}

func (c *VC) builtinAppend(st *State, call *ast.CallExpr) *Term {
	return c.builtinAppendWith(st, call, nil)
}

// builtinAppendWith: append(call.Args[0], src...) where src is the given string term (used by
// intrinsics that append a computed text, e.g. strconv.AppendUint); with synth == nil the
// ordinary append call.
func (c *VC) builtinAppendWith(st *State, call *ast.CallExpr, synth *Term) *Term {
	it := types.Typ[types.Int]
	t := c.typeOf(call)
	elemT := t.Underlying().(*types.Slice).Elem()
	_ = c.sortOf(elemT)
	s := c.eval(st, call.Args[0])
	s = c.coerce(st, s, c.typeOf(call.Args[0]), t)
	base, off, ln, cp := mkField(s, "sl_base"), mkField(s, "sl_off"), mkField(s, "sl_len"), mkField(s, "sl_cap")
	hn, h := c.sliceHeap(st, elemT)
	row := c.sel(h, base)
	var k *Term // number of appended elements
	var nrow *Term
	start := c.binop(token.ADD, off, ln, it)
	if synth != nil {
		hn, h = c.sliceHeap(st, elemT)
		row = c.sel(h, base)
		k = mkField(synth, "st_len")
		nrow = c.rowCopy(st, row, start, mkField(synth, "st_arr"), mkField(synth, "st_off"), k)
	} else if call.Ellipsis.IsValid() {
		srcT := c.typeOf(call.Args[1])
		src := c.eval(st, call.Args[1])
		hn, h = c.sliceHeap(st, elemT)
		row = c.sel(h, base)
		if b, ok := srcT.Underlying().(*types.Basic); ok && b.Info()&types.IsString != 0 {
			k = mkField(src, "st_len")
			nrow = c.rowCopy(st, row, start, mkField(src, "st_arr"), mkField(src, "st_off"), k)
		} else {
			k = mkField(src, "sl_len")
			srow := c.sel(h, mkField(src, "sl_base"))
			nrow = c.rowCopy(st, row, start, srow, mkField(src, "sl_off"), k)
		}
	} else {
		var vals []*Term
		for _, a := range call.Args[1:] {
			v := c.coerce(st, c.eval(st, a), c.typeOf(a), elemT)
			vals = append(vals, v)
			c.guardSliceValue(st, v, elemT, nil, call.Pos(), exprText(c.prog.fset, a))
		}
		hn, h = c.sliceHeap(st, elemT)
		row = c.sel(h, base)
		k = c.idxLit(int64(len(vals)))
		nrow = row
		for j, v := range vals {
			nrow = mkStore(nrow, c.binop(token.ADD, start, c.idxLit(int64(j)), it), v)
		}
		if len(vals) == 0 {
			return s
		}
	}
	nlen := c.name("nlen", c.binop(token.ADD, ln, k, it))
	inplace := c.name("inplace", c.cmp(token.LEQ, nlen, cp, it))
	ncap := c.fresh("ncap", c.idxSort())
	mx := c.numLit(pow2(maxLenBits), it)
	// the total length stays below the model bound (allocation would fail otherwise)
	c.addFact(tTrue, mkAnd(c.cmp(token.GEQ, ncap, nlen, it), c.cmp(token.LEQ, ncap, mx, it), c.inRange(ncap, it)))
	c.assumptions[fmt.Sprintf("slice lengths and capacities stay below 2^%d (an append never exceeds it)", maxLenBits)] = true
	st.pc = mkAnd(st.pc, c.cmp(token.LEQ, nlen, mx, it))
	nbase := c.name("abase", mkIte(inplace, base, st.alloc))
	c.checkWrite(st, hn, nbase, start, c.binop(token.ADD, start, k, it), call.Pos(), exprText(c.prog.fset, call))
	st.heaps[hn] = c.name(hn, mkStore(h, nbase, nrow))
	st.alloc = c.name("alloc", mkIte(inplace, st.alloc, mk("+", sortInt, st.alloc, intLit64(1))))
	return mkCtor(c.sliceSort(), nbase, off, nlen, c.name("acap", mkIte(inplace, cp, ncap)))
}

func (c *VC) builtinCopy(st *State, call *ast.CallExpr) *Term {
	it := types.Typ[types.Int]
	dt := c.typeOf(call.Args[0])
	elemT := dt.Underlying().(*types.Slice).Elem()
	_ = c.sortOf(elemT)
	d := c.eval(st, call.Args[0])
	srcT := c.typeOf(call.Args[1])
	src := c.eval(st, call.Args[1])
	hn, h := c.sliceHeap(st, elemT)
	var sl, srow, soff *Term
	if b, ok := srcT.Underlying().(*types.Basic); ok && b.Info()&types.IsString != 0 {
		sl, srow, soff = mkField(src, "st_len"), mkField(src, "st_arr"), mkField(src, "st_off")
	} else {
		sl, srow, soff = mkField(src, "sl_len"), c.sel(h, mkField(src, "sl_base")), mkField(src, "sl_off")
	}
	dl := mkField(d, "sl_len")
	n := c.name("ncopy", mkIte(c.cmp(token.LSS, dl, sl, it), dl, sl))
	base := mkField(d, "sl_base")
	row := c.sel(h, base)
	nrow := c.rowCopy(st, row, mkField(d, "sl_off"), srow, soff, n)
	c.checkWrite(st, hn, base, mkField(d, "sl_off"), c.binop(token.ADD, mkField(d, "sl_off"), n, it), call.Pos(), exprText(c.prog.fset, call))
	st.heaps[hn] = c.name(hn, mkStore(h, base, nrow))
	return n
}

// ---------------------------------------------------------------- intrinsics

func (c *VC) intrinsic(st *State, fn *types.Func, call *ast.CallExpr) ([]*Term, bool) {
	name := fullName(fn)
	it := types.Typ[types.Int]
	if strings.HasPrefix(name, "sync/atomic.") {
		if r, ok := c.atomicIntrinsic(st, fn, call); ok {
			return r, true
		}
	}
	switch name {
	case "sort.Ints":
		// documented: sorts a slice of ints in increasing order (assumed; standard library)
		if r, ok := c.sortIntsIntrinsic(st, call); ok {
			return r, true
		}
	case "sort.Slice", "sort.SliceStable":
		if r, ok := c.sortSliceIntrinsic(st, call); ok {
			return r, true
		}
	case "unicode/utf8.DecodeRune", "unicode/utf8.DecodeRuneInString":
		// uninterpreted (rune, size) plus the documented size facts: 0 for empty input, otherwise
		// between 1 and min(4, len); a byte below 0x80 decodes to itself with size 1
		{
			arg := c.eval(st, call.Args[0])
			var sv *Term
			if u, ok := c.typeOf(call.Args[0]).Underlying().(*types.Slice); ok {
				_, h := c.sliceHeap(st, u.Elem())
				sv = mkCtor(c.strSort(), c.sel(h, mkField(arg, "sl_base")), mkField(arg, "sl_off"), mkField(arg, "sl_len"))
			} else {
				sv = arg
			}
			rt := types.Typ[types.Int32]
			r := c.uf("pure_utf8_DecodeRune_0", c.sortOf(rt), sv)
			n := c.uf("pure_utf8_DecodeRune_1", c.sortOf(it), sv)
			if !c.noName && c.quantDepth == 0 && c.mode == ModeInt {
				key := "dr:" + n.String()
				if !c.specAxioms[key] {
					c.specAxioms[key] = true
					c.assumptions["utf8.DecodeRune: size facts and the ASCII case are taken from its documentation (assumed)"] = true
					ln := mkField(sv, "st_len")
					empty := mkEq(ln, c.idxLit(0))
					c.addFact(tTrue, c.wfAt(st, r, rt))
					c.addFact(tTrue, mkIte(empty, mkEq(n, c.idxLit(0)),
						mkAnd(c.cmp(token.LEQ, c.idxLit(1), n, it), c.cmp(token.LEQ, n, ln, it), c.cmp(token.LEQ, n, c.idxLit(4), it))))
					b0 := c.strByte(sv, c.idxLit(0))
					u8 := types.Typ[types.Uint8]
					c.addFact(tTrue, mkImplies(mkAnd(mkNot(empty), c.cmp(token.LSS, b0, c.numLit(bigInt(0x80), u8), u8)),
						mkAnd(mkEq(n, c.idxLit(1)), mkEq(r, c.convertInt(b0, u8, rt)))))
					// documented: the result is RuneError (U+FFFD, size 1) for an invalid encoding, otherwise
					// the rune of the shortest-form UTF-8 sequence at the start: a rune below 0x80 only
					// comes from a single ASCII byte; a sequence of 2/3/4 bytes (each >= 0x80) encodes a rune
					// in [0x80,0x800) / [0x800,0x10000) / [0x10000,0x10FFFF]
					rl := func(v int64) *Term { return c.numLit(bigInt(v), rt) }
					c.addFact(tTrue, mkAnd(c.cmp(token.LEQ, rl(0), r, rt), c.cmp(token.LEQ, r, rl(0x10FFFF), rt)))
					hi := c.cmp(token.GEQ, b0, c.numLit(bigInt(0x80), u8), u8)
					c.addFact(tTrue, mkImplies(mkAnd(mkNot(empty), hi), c.cmp(token.GEQ, r, rl(0x80), rt)))
					c.addFact(tTrue, mkImplies(mkAnd(mkNot(empty), hi, mkEq(n, c.idxLit(1))), mkEq(r, rl(0xFFFD))))
					lo := []int64{0, 0, 0x80, 0x800, 0x10000}
					up := []int64{0, 0, 0x800, 0x10000, 0x110000}
					for k := 2; k <= 4; k++ {
						var hs []*Term
						for j := 0; j < k; j++ {
							hs = append(hs, c.cmp(token.GEQ, c.strByte(sv, c.idxLit(int64(j))), c.numLit(bigInt(0x80), u8), u8))
						}
						hs = append(hs, c.cmp(token.LEQ, rl(lo[k]), r, rt), c.cmp(token.LSS, r, rl(up[k]), rt))
						c.addFact(tTrue, mkImplies(mkEq(n, c.idxLit(int64(k))), mkAnd(hs...)))
					}
				}
			}
			return []*Term{r, n}, true
		}
	case "strconv.AppendUint":
		// append(dst, FormatUint(v, base)...) with, for the constant base 16, the documented facts
		// about the text: lower-case hexadecimal digits only, no leading zeros (one digit for 0)
		if c.mode == ModeInt && len(call.Args) == 3 {
			v := c.eval(st, call.Args[1])
			bv := c.eval(st, call.Args[2])
			u64 := types.Typ[types.Uint64]
			u8 := types.Typ[types.Uint8]
			ss := c.strSort()
			sv := mkCtor(ss, c.uf("pure_strconv_FormatUint_text", ss.Fields[0].Sort, v, bv), c.idxLit(0), c.uf("pure_strconv_FormatUint_len", c.idxSort(), v, bv))
			if !c.noName && c.quantDepth == 0 {
				key := "fu:" + sv.String()
				if !c.specAxioms[key] {
					c.specAxioms[key] = true
					c.assumptions["strconv.AppendUint/FormatUint: length and digit alphabet of the text (base 16) are taken from its documentation (assumed)"] = true
					ln := mkField(sv, "st_len")
					c.addFact(tTrue, mkAnd(c.cmp(token.LEQ, c.idxLit(1), ln, it), c.cmp(token.LEQ, ln, c.idxLit(64), it)))
					if bv.Val != nil && bv.Val.Int64() == 16 {
						d := c.idxLit(16)
						for k := 15; k >= 1; k-- {
							d = mkIte(c.cmp(token.LSS, v, c.numLit(new(big.Int).Lsh(big.NewInt(1), uint(4*k)), u64), u64), c.idxLit(int64(k)), d)
						}
						c.addFact(tTrue, mkEq(ln, d))
						j := c.boundVar("j", c.idxSort())
						c.varBounds[j.Op] = interval{bigInt(0), bigInt(64)}
						b := c.strByte(sv, j)
						isDigit := mkAnd(c.cmp(token.LEQ, c.numLit(bigInt('0'), u8), b, u8), c.cmp(token.LEQ, b, c.numLit(bigInt('9'), u8), u8))
						isAF := mkAnd(c.cmp(token.LEQ, c.numLit(bigInt('a'), u8), b, u8), c.cmp(token.LEQ, b, c.numLit(bigInt('f'), u8), u8))
						in := mkAnd(c.cmp(token.LEQ, c.idxLit(0), j, it), c.cmp(token.LSS, j, ln, it))
						c.facts = append(c.facts, mkForall([]*Term{j}, mkImplies(in, mkOr(isDigit, isAF)), b))
					}
				}
			}
			return []*Term{c.builtinAppendWith(st, call, sv)}, true
		}
	case "math.Signbit":
		// the sign bit of the IEEE bit pattern; a float32 widened to float64 keeps its sign
		{
			arg := ast.Unparen(call.Args[0])
			w := 64
			inner := arg
			if conv, ok := arg.(*ast.CallExpr); ok && len(conv.Args) == 1 {
				if tv, ok := c.cur().view.typeOf(conv.Fun); ok && tv.IsType() {
					if fw, isF := isFloat(c.typeOf(conv.Args[0]).Underlying()); isF {
						inner, w = conv.Args[0], fw
					}
				}
			} else if fw, isF := isFloat(c.typeOf(arg).Underlying()); isF {
				w = fw
			}
			x := c.eval(st, inner)
			ut := types.Typ[types.Uint64]
			if w == 32 {
				ut = types.Typ[types.Uint32]
			}
			return []*Term{c.cmp(token.GEQ, x, c.numLit(new(big.Int).Lsh(big.NewInt(1), uint(w-1)), ut), ut)}, true
		}
	case "strconv.ParseUint":
		// uninterpreted result pair plus the documented facts for a constant base of 16: a successful
		// parse means the text is non-empty and consists of hexadecimal digits only (no sign, no
		// underscores, no prefix), and the value fits the requested bit size
		if len(call.Args) == 3 {
			sv := c.eval(st, call.Args[0])
			bv := c.eval(st, call.Args[1])
			zv := c.eval(st, call.Args[2])
			u64 := types.Typ[types.Uint64]
			v := c.uf("pure_strconv_ParseUint_0", c.sortOf(u64), sv, bv, zv)
			e := c.uf("pure_strconv_ParseUint_1", sortInt, sv, bv, zv)
			if !c.noName && c.quantDepth == 0 {
				key := "pu:" + v.String()
				if !c.specAxioms[key] {
					c.specAxioms[key] = true
					c.assumptions["strconv.ParseUint: a successful base-16 parse implies a non-empty all-hex-digit text and a value within the bit size (documented behaviour, assumed)"] = true
					c.addFact(tTrue, c.wfAt(st, v, u64))
					ok := mkEq(e, intLit64(0))
					if bv.Val != nil && (bv.Val.Int64() == 16 || bv.Val.Int64() == 8) && c.mode == ModeInt {
						ln := mkField(sv, "st_len")
						k := c.boundVar("k", c.idxSort())
						c.varBounds[k.Op] = interval{bigInt(0), pow2(maxLenBits)}
						ch := c.strByte(sv, k)
						lit := func(x byte) *Term { return c.numLit(bigInt(int64(x)), types.Typ[types.Uint8]) }
						u8 := types.Typ[types.Uint8]
						rng := func(lo, hi byte) *Term {
							return mkAnd(c.cmp(token.LEQ, lit(lo), ch, u8), c.cmp(token.LEQ, ch, lit(hi), u8))
						}
						hex := mkOr(rng('0', '9'), rng('a', 'f'), rng('A', 'F'))
						if bv.Val.Int64() == 8 {
							hex = rng('0', '7')
						}
						c.addFact(tTrue, mkImplies(ok, mkAnd(c.cmp(token.LSS, c.idxLit(0), ln, it),
							mkForall([]*Term{k}, mkImplies(mkAnd(c.cmp(token.LEQ, c.idxLit(0), k, it), c.cmp(token.LSS, k, ln, it)), hex)))))
						// ground instances for the first positions (numeric escapes are short): index terms of the
						// caller's slices rarely match the quantifier's trigger syntactically
						for g := 0; g < 16; g++ {
							gch := c.strByte(sv, c.idxLit(int64(g)))
							grng := func(lo, hi byte) *Term {
								return mkAnd(c.cmp(token.LEQ, lit(lo), gch, u8), c.cmp(token.LEQ, gch, lit(hi), u8))
							}
							ghex := mkOr(grng('0', '9'), grng('a', 'f'), grng('A', 'F'))
							if bv.Val.Int64() == 8 {
								ghex = grng('0', '7')
							}
							c.addFact(tTrue, mkImplies(mkAnd(ok, c.cmp(token.LSS, c.idxLit(int64(g)), ln, it)), ghex))
						}
					}
					if zv.Val != nil && zv.Val.Int64() > 0 && zv.Val.Int64() < 64 && c.mode == ModeInt {
						c.addFact(tTrue, mkImplies(ok, c.cmp(token.LSS, v, c.numLit(new(big.Int).Lsh(bigInt(1), uint(zv.Val.Int64())), u64), u64)))
					}
				}
			}
			return []*Term{v, e}, true
		}
	case "strings.IndexByte":
		// documented: index of the first instance of c in s, or -1
		sv := c.eval(st, call.Args[0])
		cv := c.eval(st, call.Args[1])
		r := c.uf("pure_strings_IndexByte", c.sortOf(it), sv, cv)
		if !c.noName && c.quantDepth == 0 {
			key := "ib:" + r.String()
			if !c.specAxioms[key] {
				c.specAxioms[key] = true
				ln := mkField(sv, "st_len")
				k := c.boundVar("k", c.idxSort())
				if c.mode == ModeInt {
					c.varBounds[k.Op] = interval{bigInt(0), pow2(maxLenBits)}
				}
				neg := c.cmp(token.LSS, r, c.idxLit(0), it)
				c.addFact(tTrue, mkAnd(c.cmp(token.LEQ, c.idxLit(-1), r, it), c.cmp(token.LSS, r, ln, it)))
				c.addFact(tTrue, mkImplies(mkNot(neg), mkEq(c.strByte(sv, r), cv)))
				upper := mkIte(neg, ln, r)
				c.addFact(tTrue, mkForall([]*Term{k}, mkImplies(mkAnd(c.cmp(token.LEQ, c.idxLit(0), k, it), c.cmp(token.LSS, k, upper, it)),
					mkNot(mkEq(c.strByte(sv, k), cv)))))
			}
		}
		return []*Term{r}, true
	case "bytes.TrimLeft", "strings.TrimLeft":
		// documented: s without its longest prefix of characters contained in the cutset; modelled for
		// a constant ASCII cutset: the result is s[k:], bytes before k are in the set, byte k is not
		if tv, ok := c.cur().view.typeOf(call.Args[1]); ok && tv.Value != nil && tv.Value.Kind() == constant.String && c.mode == ModeInt {
			set := constant.StringVal(tv.Value)
			ascii := true
			for i := 0; i < len(set); i++ {
				if set[i] >= 0x80 {
					ascii = false
				}
			}
			if ascii {
				u8 := types.Typ[types.Uint8]
				arg := c.eval(st, call.Args[0])
				isSlice := false
				var sv *Term
				if u, ok := c.typeOf(call.Args[0]).Underlying().(*types.Slice); ok {
					isSlice = true
					_, h := c.sliceHeap(st, u.Elem())
					sv = mkCtor(c.strSort(), c.sel(h, mkField(arg, "sl_base")), mkField(arg, "sl_off"), mkField(arg, "sl_len"))
				} else {
					sv = arg
				}
				ln := mkField(sv, "st_len")
				k := c.fresh("trim", c.idxSort())
				inSet := func(b *Term) *Term {
					var alts []*Term
					for i := 0; i < len(set); i++ {
						alts = append(alts, mkEq(b, c.numLit(bigInt(int64(set[i])), u8)))
					}
					return mkOr(alts...)
				}
				c.assumptions[name+": modelled by its documentation for a constant ASCII cutset (assumed)"] = true
				c.addFact(tTrue, mkAnd(c.cmp(token.LEQ, c.idxLit(0), k, it), c.cmp(token.LEQ, k, ln, it)))
				c.addFact(tTrue, mkImplies(c.cmp(token.LSS, k, ln, it), mkNot(inSet(c.strByte(sv, k)))))
				j := c.boundVar("j", c.idxSort())
				c.varBounds[j.Op] = interval{bigInt(0), pow2(maxLenBits)}
				bj := c.strByte(sv, j)
				c.facts = append(c.facts, mkForall([]*Term{j}, mkImplies(mkAnd(c.cmp(token.LEQ, c.idxLit(0), j, it), c.cmp(token.LSS, j, k, it)), inSet(bj)), bj))
				if isSlice {
					return []*Term{mkCtor(c.sliceSort(), mkField(arg, "sl_base"), c.binop(token.ADD, mkField(arg, "sl_off"), k, it),
						c.binop(token.SUB, mkField(arg, "sl_len"), k, it), c.binop(token.SUB, mkField(arg, "sl_cap"), k, it))}, true
				}
				return []*Term{mkCtor(c.strSort(), mkField(sv, "st_arr"), c.binop(token.ADD, mkField(sv, "st_off"), k, it), c.binop(token.SUB, ln, k, it))}, true
			}
		}
	case "strings.TrimPrefix":
		// documented: s without the leading prefix, or s unchanged
		sv := c.eval(st, call.Args[0])
		pv := c.eval(st, call.Args[1])
		ls, lp := mkField(sv, "st_len"), mkField(pv, "st_len")
		sub := mkCtor(c.strSort(), mkField(sv, "st_arr"), mkField(sv, "st_off"), lp)
		has := mkAnd(c.cmp(token.GEQ, ls, lp, it), c.strEqual(sub, pv))
		cut := mkCtor(c.strSort(), mkField(sv, "st_arr"), c.binop(token.ADD, mkField(sv, "st_off"), lp, it), c.binop(token.SUB, ls, lp, it))
		return []*Term{mkIte(has, cut, sv)}, true
	case "strings.HasPrefix", "strings.HasSuffix", "bytes.HasPrefix", "bytes.HasSuffix":
		// defined by the documentation: s begins (ends) with prefix (suffix)
		asStr := func(e ast.Expr) *Term {
			v := c.eval(st, e)
			if u, ok := c.typeOf(e).Underlying().(*types.Slice); ok {
				_, h := c.sliceHeap(st, u.Elem())
				return mkCtor(c.strSort(), c.sel(h, mkField(v, "sl_base")), mkField(v, "sl_off"), mkField(v, "sl_len"))
			}
			return v
		}
		s, p := asStr(call.Args[0]), asStr(call.Args[1])
		ls, lp := mkField(s, "st_len"), mkField(p, "st_len")
		off := mkField(s, "st_off")
		if strings.HasSuffix(name, "Suffix") {
			off = c.binop(token.ADD, off, c.binop(token.SUB, ls, lp, it), it)
		}
		sub := mkCtor(c.strSort(), mkField(s, "st_arr"), off, lp)
		return []*Term{mkAnd(c.cmp(token.GEQ, ls, lp, it), c.strEqual(sub, p))}, true
	case "math.Float32bits", "math.Float64bits", "math.Float32frombits", "math.Float64frombits":
		return []*Term{c.eval(st, call.Args[0])}, true
	case "math/bits.LeadingZeros64", "math/bits.LeadingZeros32", "math/bits.LeadingZeros8", "math/bits.LeadingZeros16",
		"math/bits.Len64", "math/bits.Len32", "math/bits.Len", "math/bits.Len8", "math/bits.Len16":
		if c.mode != ModeBV {
			if !strings.Contains(name, "Len") {
				break
			}
			// int mode: minimum number of bits needed to represent x (0 for 0)
			x := c.nameVal("lenx", c.eval(st, call.Args[0]))
			xt := c.typeOf(call.Args[0])
			w := 64
			switch name {
			case "math/bits.Len32":
				w = 32
			case "math/bits.Len16":
				w = 16
			case "math/bits.Len8":
				w = 8
			}
			r := c.idxLit(int64(w))
			for k := w - 1; k >= 0; k-- {
				r = mkIte(c.cmp(token.LSS, x, c.numLit(new(big.Int).Lsh(big.NewInt(1), uint(k)), xt), xt), c.idxLit(int64(k)), r)
			}
			return []*Term{c.name("bitlen", r)}, true
		}
		x := c.eval(st, call.Args[0])
		w := x.Sort.Width
		x = c.nameVal("clzx", x)
		// clz = number of leading zero bits
		r := c.idxLit(int64(w))
		for i := 0; i < w; i++ {
			bit := mkEq(mk(fmt.Sprintf("(_ extract %d %d)", i, i), bvSort(1), x), bvLit(bigOne, 1))
			r = mkIte(bit, c.idxLit(int64(w-1-i)), r)
		}
		r = c.name("clz", r)
		if strings.Contains(name, "Len") {
			r = c.binop(token.SUB, c.idxLit(int64(w)), r, it)
		}
		return []*Term{r}, true
	case "math/bits.OnesCount64", "math/bits.OnesCount32", "math/bits.OnesCount8", "math/bits.OnesCount16", "math/bits.OnesCount":
		if c.mode != ModeBV {
			break
		}
		x := c.eval(st, call.Args[0])
		w := x.Sort.Width
		x = c.nameVal("popx", x)
		r := c.idxLit(0)
		for i := 0; i < w; i++ {
			b := mk(fmt.Sprintf("(_ zero_extend %d)", 63), bvSort(64), mk(fmt.Sprintf("(_ extract %d %d)", i, i), bvSort(1), x))
			r = mk("bvadd", bvSort(64), r, b)
		}
		return []*Term{c.name("popcnt", r)}, true
	case "math/bits.TrailingZeros64", "math/bits.TrailingZeros32", "math/bits.TrailingZeros8", "math/bits.TrailingZeros16", "math/bits.TrailingZeros":
		if c.mode != ModeBV {
			break
		}
		x := c.eval(st, call.Args[0])
		w := x.Sort.Width
		x = c.nameVal("ctzx", x)
		r := c.idxLit(int64(w))
		for i := w - 1; i >= 0; i-- {
			bit := mkEq(mk(fmt.Sprintf("(_ extract %d %d)", i, i), bvSort(1), x), bvLit(bigOne, 1))
			r = mkIte(bit, c.idxLit(int64(i)), r)
		}
		return []*Term{c.name("ctz", r)}, true
	}
	return nil, false
}

// atomicIntrinsic models sync/atomic package functions under sequential semantics:
// loads, stores, compare-and-swap, add and swap are plain memory accesses.
func (c *VC) atomicIntrinsic(st *State, fn *types.Func, call *ast.CallExpr) ([]*Term, bool) {
	sig := fn.Type().(*types.Signature)
	if sig.Recv() != nil || sig.Params().Len() == 0 {
		return nil, false
	}
	pt, ok := sig.Params().At(0).Type().Underlying().(*types.Pointer)
	if !ok {
		return nil, false
	}
	et := pt.Elem()
	n := fn.Name()
	text := exprText(c.prog.fset, call)
	c.assumptions["sync/atomic operations are modelled as plain sequential memory accesses"] = true
	addr := c.eval(st, call.Args[0])
	c.nilCheck(st, addr, call.Pos(), text)
	arg := func(i int) *Term {
		return c.coerce(st, c.eval(st, call.Args[i]), c.typeOf(call.Args[i]), et)
	}
	switch {
	case strings.HasPrefix(n, "Load"):
		return []*Term{c.loadPlace(st, addr, et)}, true
	case strings.HasPrefix(n, "Store"):
		c.storeAt(st, addr, et, arg(1), call.Pos(), text)
		return nil, true
	case strings.HasPrefix(n, "CompareAndSwap"):
		old, nw := arg(1), arg(2)
		cur := c.loadPlace(st, addr, et)
		okc := c.name("cas", c.equal(st, cur, old, et))
		sub := st.clone()
		sub.pc = mkAnd(st.pc, okc)
		c.storeAt(sub, addr, et, nw, call.Pos(), text)
		other := st.clone()
		other.pc = mkAnd(st.pc, mkNot(okc))
		env := st.env
		st.set(c.merge(sub, other))
		for k, v := range env {
			if _, has := st.env[k]; !has {
				st.env[k] = v
			}
		}
		return []*Term{okc}, true
	case strings.HasPrefix(n, "Add"):
		cur := c.loadPlace(st, addr, et)
		nv := c.binop(token.ADD, cur, arg(1), et)
		c.storeAt(st, addr, et, nv, call.Pos(), text)
		return []*Term{nv}, true
	case strings.HasPrefix(n, "Swap"):
		cur := c.loadPlace(st, addr, et)
		c.storeAt(st, addr, et, arg(1), call.Pos(), text)
		return []*Term{cur}, true
	}
	return nil, false
}

// ---------------------------------------------------------------- havoc

func (c *VC) resultTypes(call *ast.CallExpr) []types.Type {
	t := c.typeOf(call)
	if t == nil {
		return nil
	}
	if tup, ok := t.(*types.Tuple); ok {
		var r []types.Type
		for i := 0; i < tup.Len(); i++ {
			r = append(r, tup.At(i).Type())
		}
		return r
	}
	if b, ok := t.(*types.Basic); ok && b.Kind() == types.Invalid {
		return nil
	}
	return []types.Type{t}
}

func (c *VC) havocCall(st *State, fn *types.Func, args []*Term, call *ast.CallExpr) []*Term {
	name := fullName(fn)
	rts := c.resultTypes(call)
	pure := c.isPureName(fn)
	var res []*Term
	if pure {
		c.assumptions["call to "+name+" is pure (result depends only on its arguments and the memory they directly reference)"] = true
		// functional: UF over args plus first-level memory
		sig := fn.Type().(*types.Signature)
		var uargs []*Term
		var ptypes []types.Type
		if sig.Recv() != nil {
			ptypes = append(ptypes, sig.Recv().Type())
		}
		for i := 0; i < sig.Params().Len(); i++ {
			ptypes = append(ptypes, sig.Params().At(i).Type())
		}
		for i, a := range args {
			if i >= len(ptypes) {
				uargs = append(uargs, a)
				continue
			}
			switch u := ptypes[i].Underlying().(type) {
			case *types.Slice:
				// a slice argument is its content: (row, offset, length); identity and capacity do not matter
				_, h := c.sliceHeap(st, u.Elem())
				uargs = append(uargs, c.sel(h, mkField(a, "sl_base")), mkField(a, "sl_off"), mkField(a, "sl_len"))
			case *types.Pointer:
				uargs = append(uargs, a)
				if c.sizeof(u.Elem()) <= 64 {
					uargs = append(uargs, c.loadAt(st, a, u.Elem()))
				}
			default:
				uargs = append(uargs, a)
			}
		}
		for i, rt := range rts {
			r := c.uf(fmt.Sprintf("pure_%s_%d", sanitize(name), i), c.sortOf(rt), uargs...)
			c.addFact(tTrue, c.wfAt(st, r, rt))
			res = append(res, r)
		}
	} else {
		c.havocked[name] = true
		c.checkUnknownWrites(st, call.Pos(), name)
		c.havocHeaps(st)
		na := c.fresh("alloc", sortInt)
		c.addFact(tTrue, mk(">=", sortBool, na, st.alloc))
		st.alloc = na
		for _, rt := range rts {
			r := c.fresh("r_"+fn.Name(), c.sortOf(rt))
			c.addFact(tTrue, c.wfAt(st, r, rt))
			res = append(res, r)
		}
	}
	// error constructors return non-nil errors
	if isErrorCtor(name) && len(res) == 1 {
		c.addFact(tTrue, mkNot(mkEq(res[0], intLit64(0))))
	}
	return res
}

func isErrorCtor(name string) bool {
	switch name {
	case "errors.New", "fmt.Errorf", "google.golang.org/protobuf/internal/errors.New", "google.golang.org/protobuf/internal/errors.Error",
		"google.golang.org/protobuf/internal/errors.InvalidUTF8", "google.golang.org/protobuf/internal/errors.RequiredNotSet",
		"google.golang.org/protobuf/internal/errors.Wrap":
		return true
	}
	return false
}

func (c *VC) havocDynamic(st *State, call *ast.CallExpr, args []*Term) []*Term {
	fc := c.fieldContractFor(call)
	if fc == nil {
		c.havocked["dynamic call "+exprText(c.prog.fset, call.Fun)] = true
	}
	pre := st.clone()
	c.checkUnknownWrites(st, call.Pos(), exprText(c.prog.fset, call.Fun))
	keep := c.frameLocalRows(st)
	c.havocHeaps(st)
	for _, k := range keep {
		st.heaps[k.heap] = mkStore(st.heaps[k.heap], k.base, k.row)
	}
	na := c.fresh("alloc", sortInt)
	c.addFact(tTrue, mk(">=", sortBool, na, st.alloc))
	st.alloc = na
	var res []*Term
	for _, rt := range c.resultTypes(call) {
		r := c.fresh("dyn", c.sortOf(rt))
		c.addFact(tTrue, c.wfAt(st, r, rt))
		res = append(res, r)
	}
	if fc != nil {
		// a call through a function-typed struct field for which the ghost file states a contract that
		// every function stored in that field must satisfy: requires are obligations here, ensures are
		// ASSUMED (the effects stay "anything": the heaps were havocked above)
		c.assumptions["calls through "+strings.TrimPrefix(fc.Obj.Name(), "fieldcontract_")+" are assumed to satisfy "+fc.Name+" (table invariant; proved only for the functions that have a sig-lemma)"] = true
		kps := paramObjs(fc)
		for i, p := range kps {
			if i < len(args) {
				pre.env[p] = args[i]
			}
		}
		ctext := exprText(c.prog.fset, call.Fun)
		run := &contractRun{phase: 1}
		inSpec := c.ghost > 0
		run.onReq = func(text string, pos token.Pos, g *State, t *Term) {
			if inSpec {
				return
			}
			c.addObl("call-pre", ctext+": "+text, call.Pos(), g.pc, t)
		}
		c.runContract(pre, fc, run)
		post := st.clone()
		for i, p := range kps {
			if i < len(args) {
				post.env[p] = args[i]
			}
		}
		for i, r := range resultObjs(fc) {
			if i < len(res) {
				post.env[r] = res[i]
			}
		}
		run2 := &contractRun{phase: 2, old: pre, asCallee: true}
		run2.onEns = func(text string, pos token.Pos, g *State, t *Term) {
			c.addFact(g.pc, t)
		}
		c.runContract(post, fc, run2)
	}
	return res
}

// fieldContractFor: the call goes through a function-typed field T.f of a named struct type and
// the package of T declares the ghost function fieldcontract_T_f.
func (c *VC) fieldContractFor(call *ast.CallExpr) *FuncInfo {
	sel, ok := ast.Unparen(call.Fun).(*ast.SelectorExpr)
	if !ok {
		return nil
	}
	s := c.cur().view.selection(sel)
	if os.Getenv("GOVC_DBG") != "" {
		fmt.Fprintf(os.Stderr, "fieldContractFor %s sel=%v\n", exprText(c.prog.fset, call.Fun), s)
	}
	if s == nil || s.Kind() != types.FieldVal {
		return nil
	}
	recv := s.Recv()
	if p, ok := recv.Underlying().(*types.Pointer); ok {
		recv = p.Elem()
	}
	// walk embedded path to the struct that declares the field
	fld, _ := s.Obj().(*types.Var)
	if fld == nil || fld.Pkg() == nil {
		return nil
	}
	owner := ""
	sc := fld.Pkg().Scope()
	for _, n := range sc.Names() {
		tn, ok := sc.Lookup(n).(*types.TypeName)
		if !ok {
			continue
		}
		st, ok := tn.Type().Underlying().(*types.Struct)
		if !ok {
			continue
		}
		for i := 0; i < st.NumFields(); i++ {
			if st.Field(i) == fld {
				owner = tn.Name()
			}
		}
	}
	if owner == "" {
		return nil
	}
	fi := c.prog.byName[c.fn.Pkg.Types.Name()+".fieldcontract_"+owner+"_"+fld.Name()] // stated by the calling package
	if fi == nil {
		fi = c.prog.byName[fld.Pkg().Name()+".fieldcontract_"+owner+"_"+fld.Name()]
	}
	if fi == nil {
		fi = c.prog.byName[fld.Pkg().Path()+".fieldcontract_"+owner+"_"+fld.Name()]
	}
	if fi == nil || fi.Kind != "fieldcontract" {
		return nil
	}
	return fi
}

// ---------------------------------------------------------------- inlining

func (c *VC) scanBoxed(fi *FuncInfo, body ast.Node, view infoView) (map[types.Object]bool, map[types.Object]bool) {
	boxed := map[types.Object]bool{}
	arr := map[types.Object]bool{}
	root := func(e ast.Expr) *ast.Ident {
		for {
			switch x := ast.Unparen(e).(type) {
			case *ast.Ident:
				return x
			default:
				return nil
			}
		}
	}
	ast.Inspect(body, func(n ast.Node) bool {
		switch n := n.(type) {
		case *ast.UnaryExpr:
			if n.Op == token.AND {
				if id := root(n.X); id != nil {
					if v, ok := view.objOf(id).(*types.Var); ok && !v.IsField() && v.Parent() != v.Pkg().Scope() {
						boxed[v] = true
					}
				}
			}
		case *ast.SliceExpr:
			if id := root(n.X); id != nil {
				if v, ok := view.objOf(id).(*types.Var); ok {
					if _, isArr := v.Type().Underlying().(*types.Array); isArr && v.Parent() != v.Pkg().Scope() {
						arr[v] = true
					}
				}
			}
		case *ast.CallExpr:
			if se, ok := ast.Unparen(n.Fun).(*ast.SelectorExpr); ok {
				if sel := view.selection(se); sel != nil && sel.Kind() == types.MethodVal {
					if fn, ok := sel.Obj().(*types.Func); ok {
						sig := fn.Type().(*types.Signature)
						if sig.Recv() != nil {
							if _, rp := sig.Recv().Type().(*types.Pointer); rp {
								if id := root(se.X); id != nil {
									if v, ok := view.objOf(id).(*types.Var); ok && v.Parent() != v.Pkg().Scope() {
										if _, isPtr := v.Type().Underlying().(*types.Pointer); !isPtr && !(ast.Unparen(se.X) == ast.Expr(id) && promotedViaPointer(v.Type(), sel.Index())) {
											boxed[v] = true
										}
									}
								}
							}
						}
					}
				}
			}
		}
		return true
	})
	return boxed, arr
}

func (c *VC) pushFrame(fi *FuncInfo) *frame {
	view := c.prog.view(fi.Pkg)
	fr := &frame{fi: fi, view: view}
	if fi.Decl.Body != nil {
		fr.boxed, fr.arrBoxed = c.scanBoxed(fi, fi.Decl.Body, view)
	}
	c.frames = append(c.frames, fr)
	return fr
}

func (c *VC) popFrame() { c.frames = c.frames[:len(c.frames)-1] }

// paramObjs returns receiver + parameters of a declaration as objects (nil for unnamed/blank).
func paramObjs(fi *FuncInfo) []*types.Var {
	sig := fi.Obj.Type().(*types.Signature)
	var ps []*types.Var
	if r := sig.Recv(); r != nil {
		ps = append(ps, r)
	}
	for i := 0; i < sig.Params().Len(); i++ {
		ps = append(ps, sig.Params().At(i))
	}
	return ps
}

func resultObjs(fi *FuncInfo) []*types.Var {
	sig := fi.Obj.Type().(*types.Signature)
	var rs []*types.Var
	for i := 0; i < sig.Results().Len(); i++ {
		rs = append(rs, sig.Results().At(i))
	}
	return rs
}

func (c *VC) inlineCall(st *State, fi *FuncInfo, args []*Term, call *ast.CallExpr) []*Term {
	if c.inlineDepth > 90 {
		c.unsupportedf(token.NoPos, "inline depth exceeded at %s", fi.Name)
		var rs []*Term
		for _, r := range resultObjs(fi) {
			rs = append(rs, c.fresh("deep", c.sortOf(r.Type())))
		}
		return rs
	}
	depth := 0
	for _, f := range c.frames {
		if f.fi == fi {
			depth++
		}
	}
	if st.dead() {
		// unreachable call: any value will do
		var rs []*Term
		for _, r := range resultObjs(fi) {
			rs = append(rs, c.zero(r.Type()))
		}
		return rs
	}
	if depth > 0 && depth > fi.Dir.Unfold {
		// recursion: spec functions become uninterpreted with an unfolding axiom
		if fi.Kind == "spec" {
			return c.specUF(st, fi, args)
		}
		c.unsupportedf(token.NoPos, "recursive inline of %s", fi.Name)
		var rs []*Term
		for _, r := range resultObjs(fi) {
			rs = append(rs, c.fresh("rec", c.sortOf(r.Type())))
		}
		return rs
	}
	c.inlined[fi.Name] = true
	isSpec := fi.Kind == "spec"
	var cacheKey string
	saveNoName := c.noName
	if isSpec {
		// spec functions are pure: evaluate once per (arguments, heap) under the trivial path condition
		var sb strings.Builder
		sb.WriteString(fi.Name)
		bound := false
		for _, a := range args {
			sb.WriteString("|")
			as := a.String()
			if strings.Contains(as, "?") {
				bound = true
			}
			sb.WriteString(as)
		}
		readsHeap := false
		for _, p := range paramObjs(fi) {
			switch p.Type().Underlying().(type) {
			case *types.Slice, *types.Pointer, *types.Map, *types.Interface, *types.Struct:
				readsHeap = true
			}
		}
		if readsHeap {
			for _, hn := range sortedKeysT(st.heaps) {
				sb.WriteString("|" + hn + "=")
				sb.WriteString(st.heaps[hn].String())
			}
		}
		cacheKey = sb.String()
		if len(cacheKey) < 20000 {
			if v, ok := c.specCache[cacheKey]; ok {
				return v
			}
		} else {
			cacheKey = ""
		}
		if c.noName && !bound && c.quantDepth > 0 {
			c.noName = false
		}
	}
	c.inlineDepth++
	if isSpec {
		c.ghost++
		c.mathInts++
	}
	fr := c.pushFrame(fi)
	sub := &State{env: map[types.Object]*Term{}, heaps: st.heaps, alloc: st.alloc, pc: st.pc}
	if isSpec {
		sub.pc = tTrue
	}
	sub.heaps = map[string]*Term{}
	for k, v := range st.heaps {
		sub.heaps[k] = v
	}
	ps := paramObjs(fi)
	for i, p := range ps {
		if i < len(args) && p.Name() != "" && p.Name() != "_" {
			c.bindVar(sub, p, args[i])
		}
	}
	res := resultObjs(fi)
	for _, r := range res {
		if r.Name() != "" && r.Name() != "_" {
			fr.results = append(fr.results, r)
			c.bindVar(sub, r, c.zero(r.Type()))
		}
	}
	if len(fr.results) != len(res) {
		fr.results = nil
	}
	c.execBlock(sub, fi.Decl.Body.List)
	if !sub.dead() {
		// fall off the end (no results) or named results
		var vals []*Term
		for _, r := range fr.results {
			vals = append(vals, c.readVar(sub, r))
		}
		fr.rets = append(fr.rets, &retState{st: sub.clone(), vals: vals})
	}
	merged, vals := c.mergeRets(fr.rets, res)
	c.popFrame()
	if fi.Kind == "spec" {
		c.ghost--
		c.mathInts--
	}
	c.inlineDepth--
	if isSpec {
		c.noName = saveNoName
		if cacheKey != "" {
			c.specCache[cacheKey] = vals
		}
		return vals
	}
	st.heaps, st.alloc, st.pc = merged.heaps, merged.alloc, merged.pc
	return vals
}

func (c *VC) mergeRets(rets []*retState, res []*types.Var) (*State, []*Term) {
	var keys []*types.Var
	for i := range res {
		keys = append(keys, types.NewVar(token.NoPos, nil, fmt.Sprintf("ret%d", i), res[i].Type()))
	}
	var sts []*State
	for _, r := range rets {
		for i, k := range keys {
			if i < len(r.vals) {
				r.st.env[k] = r.vals[i]
			}
		}
		// drop callee locals: keep only ret keys
		env := map[types.Object]*Term{}
		for _, k := range keys {
			if v, ok := r.st.env[k]; ok {
				env[k] = v
			}
		}
		r.st.env = env
		sts = append(sts, r.st)
	}
	m := c.mergeAll(sts)
	var vals []*Term
	for i, k := range keys {
		v, ok := m.env[k]
		if !ok {
			v = c.fresh("ret", c.sortOf(res[i].Type()))
		}
		vals = append(vals, v)
	}
	return m, vals
}

func (c *VC) inlineLit(st *State, lit *ast.FuncLit, call *ast.CallExpr) []*Term {
	fr := c.cur()
	tv, _ := fr.view.typeOf(lit)
	sig := tv.Type.(*types.Signature)
	var args []*Term
	for i, a := range call.Args {
		v := c.eval(st, a)
		if i < sig.Params().Len() {
			v = c.coerce(st, v, c.typeOf(a), sig.Params().At(i).Type())
		}
		args = append(args, v)
	}
	return c.inlineLitArgs(st, lit, args)
}

// inlineLitArgs executes a function literal's body with the given argument values.
func (c *VC) inlineLitArgs(st *State, lit *ast.FuncLit, args []*Term) []*Term {
	c.inlineDepth++
	defer func() { c.inlineDepth-- }()
	fr := c.cur()
	tv, _ := fr.view.typeOf(lit)
	sig := tv.Type.(*types.Signature)
	// execute the literal body in the current frame, with its own return collection
	saveRets, saveResults, saveTargets := fr.rets, fr.results, fr.targets
	saveFi := fr.fi
	fr.rets, fr.results, fr.targets = nil, nil, nil
	// a pseudo FuncInfo so that execReturn sees the literal's signature
	fr.fi = &FuncInfo{Name: saveFi.Name, Obj: types.NewFunc(token.NoPos, saveFi.Pkg.Types, "lit", sig), Decl: saveFi.Decl, Pkg: saveFi.Pkg, Dir: saveFi.Dir, Contract: saveFi.Contract, Kind: saveFi.Kind}
	sub := st.clone()
	for i := 0; i < sig.Params().Len(); i++ {
		if i < len(args) {
			sub.env[sig.Params().At(i)] = args[i]
		}
	}
	var res []*types.Var
	for i := 0; i < sig.Results().Len(); i++ {
		r := sig.Results().At(i)
		res = append(res, r)
		if r.Name() != "" {
			fr.results = append(fr.results, r)
			sub.env[r] = c.zero(r.Type())
		}
	}
	c.execBlock(sub, lit.Body.List)
	if !sub.dead() {
		var vals []*Term
		for _, r := range fr.results {
			vals = append(vals, c.readVar(sub, r))
		}
		fr.rets = append(fr.rets, &retState{st: sub.clone(), vals: vals})
	}
	// closure may assign captured variables: merge full environments
	rets := fr.rets
	fr.rets, fr.results, fr.targets, fr.fi = saveRets, saveResults, saveTargets, saveFi
	var keys []*types.Var
	for i := range res {
		keys = append(keys, types.NewVar(token.NoPos, nil, fmt.Sprintf("ret%d", i), res[i].Type()))
	}
	var sts []*State
	for _, r := range rets {
		for i, k := range keys {
			if i < len(r.vals) {
				r.st.env[k] = r.vals[i]
			}
		}
		sts = append(sts, r.st)
	}
	m := c.mergeAll(sts)
	var vals []*Term
	for i, k := range keys {
		v, ok := m.env[k]
		if !ok {
			v = c.fresh("ret", c.sortOf(res[i].Type()))
		}
		vals = append(vals, v)
		delete(m.env, k)
	}
	old := st.env
	st.set(m)
	for k, v := range old {
		if _, ok := st.env[k]; !ok {
			st.env[k] = v
		}
	}
	return vals
}

// callbackEffects: a function literal passed to a call whose body is not inlined may be run by the
// callee any number of times. After such a call the variables the literal assigns hold arbitrary
// values; the literal's body is executed once from that arbitrary state so that the obligations
// inside it (call-site assertions, callee preconditions, panics) are generated; and under
// guard-errors a non-nil error obtained inside the callback must leave the callback with the
// captured error variable non-nil and the result false (callbacks of the Range* helpers stop the
// iteration by returning false - assumed).
func (c *VC) callbackEffects(st *State, call *ast.CallExpr) {
	if c.ghost > 0 || c.noName || st.dead() {
		return
	}
	if id, ok := ast.Unparen(call.Fun).(*ast.Ident); ok && (ghostBuiltins[id.Name] || id.Name == "append" || id.Name == "len") {
		return
	}
	var lits []*ast.FuncLit
	for _, a := range call.Args {
		if l, ok := ast.Unparen(a).(*ast.FuncLit); ok {
			lits = append(lits, l)
		}
	}
	if len(lits) == 0 {
		return
	}
	if fn := c.staticCallee(call); fn != nil {
		name := fullName(fn)
		if name == "sort.Slice" || name == "sort.SliceStable" || c.isPureName(fn) {
			return
		}
		if fi := c.prog.funcs[fn]; fi != nil && (fi.Ghost || c.shouldInline(fi)) {
			return
		}
	}
	fr := c.cur()
	for _, lit := range lits {
		ef := c.effectsOf(lit.Body)
		var objs []types.Object
		for o := range ef.vars {
			if _, ok := st.env[o]; ok && !fr.boxed[o] && !fr.arrBoxed[o] {
				objs = append(objs, o)
			}
		}
		sort.Slice(objs, func(i, j int) bool { return objs[i].Pos() < objs[j].Pos() })
		for _, o := range objs {
			nv := c.fresh(o.Name(), st.env[o].Sort)
			st.env[o] = nv
			c.addFact(tTrue, c.wfAt(st, nv, o.Type()))
		}
		if len(c.frames) != 1 || c.inlineDepth > 0 {
			continue
		}
		tv, _ := fr.view.typeOf(lit)
		sig, ok := tv.Type.(*types.Signature)
		if !ok {
			continue
		}
		sub := st.clone()
		var args []*Term
		for i := 0; i < sig.Params().Len(); i++ {
			pv := c.fresh("cb_"+sig.Params().At(i).Name(), c.sortOf(sig.Params().At(i).Type()))
			c.addFact(tTrue, c.wfAt(sub, pv, sig.Params().At(i).Type()))
			args = append(args, pv)
		}
		if c.pendErr != nil {
			sub.env[c.pendErr] = tFalse
		}
		vals := c.inlineLitArgs(sub, lit, args)
		if c.pendErr != nil && !sub.dead() {
			errT := types.Universe.Lookup("error").Type()
			var errVars []types.Object
			for _, o := range objs {
				if types.Identical(o.Type(), errT) {
					errVars = append(errVars, o)
				}
			}
			if pend, ok := sub.env[c.pendErr]; ok && len(errVars) == 1 && len(vals) == 1 && vals[0].Sort == sortBool {
				goal := mkImplies(pend, mkAnd(mkNot(vals[0]), mkNot(mkEq(sub.env[errVars[0]], intLit64(0)))))
				c.addObl("own/error-propagation", "callback: a non-nil error obtained inside the callback stops the iteration and stays in "+errVars[0].Name(), lit.Pos(), sub.pc, goal)
			}
		}
	}
}

// callSiteAsserts: `//@ callsite f: e` on the contract of the function under verification states
// that e (over the caller's variables) holds immediately before every call whose callee reads f.
func (c *VC) callSiteAsserts(st *State, call *ast.CallExpr) {
	if c.ghost > 0 || len(c.frames) != 1 {
		return
	}
	d := c.fn.Dir
	if c.fn.Contract != nil {
		d = c.fn.Contract.Dir
	}
	if d == nil || len(d.CallSites) == 0 {
		return
	}
	text := exprText(c.prog.fset, call.Fun)
	for _, cs := range d.CallSites {
		if strings.HasPrefix(cs.Callee, "*.") {
			// `callsite *.M: e`: every method call x.M(...), whatever the receiver expression
			se, ok := ast.Unparen(call.Fun).(*ast.SelectorExpr)
			if !ok || se.Sel.Name != cs.Callee[2:] {
				continue
			}
		} else if cs.Callee != text {
			continue
		}
		c.siteCall, c.siteState = call, st
		t, err := c.evalDirective(st, cs.Expr, call.Pos())
		c.siteCall, c.siteState = nil, nil
		if err != nil {
			c.prog.errors = append(c.prog.errors, fmt.Sprintf("CONTRACT-STALE %s callsite %s %q: %v", c.fn.Name, cs.Callee, cs.Expr, err))
			continue
		}
		c.addObl("callsite", cs.Callee+": "+cs.Expr, call.Pos(), st.pc, t)
	}
}

func (c *VC) pureFuncValues() bool {
	d := c.fn.Dir
	if c.fn.Contract != nil {
		d = c.fn.Contract.Dir
	}
	return d != nil && d.PureFuncValues
}

func (c *VC) isAbstract(fi *FuncInfo) bool {
	d := c.fn.Dir
	if c.fn.Contract != nil {
		d = c.fn.Contract.Dir
	}
	return d != nil && (d.Abstract[fi.Obj.Name()] || d.Abstract[fi.Name])
}

func (c *VC) specUFNoAxiom(st *State, fi *FuncInfo, args []*Term) []*Term {
	r := c.specUF(st, fi, args)
	delete(c.pendingSpecs, fi)
	return r
}

// specUF: recursive spec function as an uninterpreted function with an unfolding axiom.
// Arguments of slice type contribute their heap row as an extra argument.
func (c *VC) specUF(st *State, fi *FuncInfo, args []*Term) []*Term {
	ps := paramObjs(fi)
	uargs := append([]*Term{}, args...)
	for i, a := range args {
		if i >= len(ps) {
			break
		}
		if u, ok := ps[i].Type().Underlying().(*types.Slice); ok {
			_, h := c.sliceHeap(st, u.Elem())
			uargs = append(uargs, c.sel(h, mkField(a, "sl_base")))
		}
	}
	res := resultObjs(fi)
	name := "spec_" + sanitize(fi.Name)
	r := c.uf(name, c.sortOf(res[0].Type()), uargs...)
	c.specFrame(name, ps, args, uargs[len(args):], r)
	if c.mode == ModeInt && !c.noName {
		if _, signed, isInt := intInfo(res[0].Type()); !isInt || !signed {
			if k := "rng:" + r.String(); !strings.Contains(k, "?") && !c.specAxioms[k] {
				c.specAxioms[k] = true
				c.facts = append(c.facts, c.wf(r, res[0].Type()))
			}
		}
	}
	// fuel-1 unfolding: every application that occurs syntactically in the VC is given its
	// definition once; applications produced by that unfolding are left folded. No quantified
	// axioms, hence no matching loops.
	if c.unfoldDepth == 0 && !c.isAbstract(fi) && !fi.Dir.Uninterp && !c.noName && fi.Decl.Body != nil {
		key := r.String()
		if strings.Contains(key, "?") {
			return []*Term{r}
		}
		if !c.unfolded[key] {
			c.unfolded[key] = true
			c.unfoldDepth++
			sub := st.clone()
			sub.pc = tTrue
			vals := c.inlineCall(sub, fi, args, nil)
			c.unfoldDepth--
			if len(vals) > 0 {
				c.facts = append(c.facts, mkEq(r, vals[0]))
			}
		}
	}
	return []*Term{r}
}

// sortSliceIntrinsic models sort.Slice(s, func(i, j int) bool { return <expr over s[i], s[j]> })
// by its documented effect, ASSUMED (not verified; the comparator must be a strict weak order):
// the elements of s are rearranged (a permutation, given by two mutually inverse index maps),
// nothing else changes, and afterwards no later element is less than an earlier one.
func (c *VC) sortSliceIntrinsic(st *State, call *ast.CallExpr) ([]*Term, bool) {
	if len(call.Args) != 2 {
		return nil, false
	}
	lit, ok := ast.Unparen(call.Args[1]).(*ast.FuncLit)
	if !ok {
		return nil, false
	}
	var ret *ast.ReturnStmt
	if len(lit.Body.List) == 1 {
		if r, ok := lit.Body.List[0].(*ast.ReturnStmt); ok && len(r.Results) == 1 {
			ret = r
		}
	}
	sl, ok := c.typeOf(call.Args[0]).Underlying().(*types.Slice)
	if !ok {
		return nil, false
	}
	tv, _ := c.cur().view.typeOf(lit)
	sig, ok := tv.Type.(*types.Signature)
	if !ok || sig.Params().Len() != 2 {
		return nil, false
	}
	it := types.Typ[types.Int]
	c.assumptions["sort.Slice is modelled by its documentation (result is a permutation of the input, sorted w.r.t. the comparator): assumed, standard library"] = true
	s := c.eval(st, call.Args[0])
	base, off, ln := mkField(s, "sl_base"), mkField(s, "sl_off"), mkField(s, "sl_len")
	hn, h := c.sliceHeap(st, sl.Elem())
	row0 := c.name("sortrow0", c.sel(h, base))
	c.checkWrite(st, hn, base, off, c.binop(token.ADD, off, ln, it), call.Pos(), "sort.Slice")
	row1 := c.fresh("sortrow", row0.Sort)
	st.heaps[hn] = mkStore(h, base, row1)
	c.freshN++
	perm := fmt.Sprintf("sortperm!%d", c.freshN)
	inv := fmt.Sprintf("sortinv!%d", c.freshN)
	is := c.idxSort()
	bnd := func(v *Term) {
		if c.mode == ModeInt {
			c.varBounds[v.Op] = interval{bigInt(0), pow2(maxLenBits)}
		}
	}
	// frame: outside the window nothing moves
	{
		j := c.boundVar("j", is)
		out := mkOr(c.cmp(token.LSS, j, off, it), c.cmp(token.GEQ, j, c.binop(token.ADD, off, ln, it), it))
		c.facts = append(c.facts, mkForall([]*Term{j}, mkImplies(out, mkEq(mkSelect(row1, j), mkSelect(row0, j))), mkSelect(row1, j)))
	}
	// permutation, both directions
	{
		k := c.boundVar("k", is)
		bnd(k)
		in := mkAnd(c.cmp(token.LEQ, c.idxLit(0), k, it), c.cmp(token.LSS, k, ln, it))
		pk := c.uf(perm, is, k)
		c.facts = append(c.facts, mkForall([]*Term{k}, mkImplies(in, mkAnd(c.cmp(token.LEQ, c.idxLit(0), pk, it), c.cmp(token.LSS, pk, ln, it),
			mkEq(mkSelect(row1, c.binop(token.ADD, off, k, it)), mkSelect(row0, c.binop(token.ADD, off, pk, it))))), mkSelect(row1, c.binop(token.ADD, off, k, it))))
		k2 := c.boundVar("k", is)
		bnd(k2)
		in2 := mkAnd(c.cmp(token.LEQ, c.idxLit(0), k2, it), c.cmp(token.LSS, k2, ln, it))
		ik := c.uf(inv, is, k2)
		c.facts = append(c.facts, mkForall([]*Term{k2}, mkImplies(in2, mkAnd(c.cmp(token.LEQ, c.idxLit(0), ik, it), c.cmp(token.LSS, ik, ln, it),
			mkEq(mkSelect(row0, c.binop(token.ADD, off, k2, it)), mkSelect(row1, c.binop(token.ADD, off, ik, it))))), mkSelect(row0, c.binop(token.ADD, off, k2, it))))
	}
	// sorted: for a < b, not less(b, a)
	{
		a, b := c.boundVar("a", is), c.boundVar("b", is)
		bnd(a)
		bnd(b)
		sub := st.clone()
		sub.pc = tTrue
		sub.env[sig.Params().At(0)] = b
		sub.env[sig.Params().At(1)] = a
		saveNN := c.noName
		c.noName = true
		c.quantDepth++
		c.ghost++
		nf := len(c.facts)
		var body *Term
		if ret != nil {
			body = c.evalCond(sub, ret.Results[0])
		} else {
			// a comparator with statements (switch over the key kind): executed symbolically with
			// the two indices bound; paths that panic contribute nothing
			vals := c.inlineLitArgs(sub, lit, []*Term{b, a})
			if len(vals) == 1 {
				body = vals[0]
			}
		}
		c.ghost--
		c.quantDepth--
		c.noName = saveNN
		c.facts = c.facts[:nf]
		if body == nil {
			return nil, true
		}
		rng := mkAnd(c.cmp(token.LEQ, c.idxLit(0), a, it), c.cmp(token.LSS, a, b, it), c.cmp(token.LSS, b, ln, it))
		c.facts = append(c.facts, mkForall([]*Term{a, b}, mkImplies(rng, mkNot(body))))
	}
	return nil, true
}

// sortIntsIntrinsic: sort.Ints(s) leaves a permutation of s in increasing order; nothing else changes.
func (c *VC) sortIntsIntrinsic(st *State, call *ast.CallExpr) ([]*Term, bool) {
	sl, ok := c.typeOf(call.Args[0]).Underlying().(*types.Slice)
	if !ok {
		return nil, false
	}
	it := types.Typ[types.Int]
	c.assumptions["sort.Ints is modelled by its documentation (result is a permutation of the input in increasing order): assumed, standard library"] = true
	s := c.eval(st, call.Args[0])
	base, off, ln := mkField(s, "sl_base"), mkField(s, "sl_off"), mkField(s, "sl_len")
	hn, h := c.sliceHeap(st, sl.Elem())
	row0 := c.name("sortrow0", c.sel(h, base))
	c.checkWrite(st, hn, base, off, c.binop(token.ADD, off, ln, it), call.Pos(), "sort.Ints")
	row1 := c.fresh("sortrow", row0.Sort)
	st.heaps[hn] = mkStore(h, base, row1)
	c.freshN++
	perm := fmt.Sprintf("sortperm!%d", c.freshN)
	inv := fmt.Sprintf("sortinv!%d", c.freshN)
	is := c.idxSort()
	bnd := func(v *Term) {
		if c.mode == ModeInt {
			c.varBounds[v.Op] = interval{bigInt(0), pow2(maxLenBits)}
		}
	}
	j := c.boundVar("j", is)
	out := mkOr(c.cmp(token.LSS, j, off, it), c.cmp(token.GEQ, j, c.binop(token.ADD, off, ln, it), it))
	c.facts = append(c.facts, mkForall([]*Term{j}, mkImplies(out, mkEq(mkSelect(row1, j), mkSelect(row0, j))), mkSelect(row1, j)))
	k := c.boundVar("k", is)
	bnd(k)
	in := mkAnd(c.cmp(token.LEQ, c.idxLit(0), k, it), c.cmp(token.LSS, k, ln, it))
	pk := c.uf(perm, is, k)
	c.facts = append(c.facts, mkForall([]*Term{k}, mkImplies(in, mkAnd(c.cmp(token.LEQ, c.idxLit(0), pk, it), c.cmp(token.LSS, pk, ln, it),
		mkEq(mkSelect(row1, c.binop(token.ADD, off, k, it)), mkSelect(row0, c.binop(token.ADD, off, pk, it))))), mkSelect(row1, c.binop(token.ADD, off, k, it))))
	k2 := c.boundVar("k", is)
	bnd(k2)
	in2 := mkAnd(c.cmp(token.LEQ, c.idxLit(0), k2, it), c.cmp(token.LSS, k2, ln, it))
	ik := c.uf(inv, is, k2)
	c.facts = append(c.facts, mkForall([]*Term{k2}, mkImplies(in2, mkAnd(c.cmp(token.LEQ, c.idxLit(0), ik, it), c.cmp(token.LSS, ik, ln, it),
		mkEq(mkSelect(row0, c.binop(token.ADD, off, k2, it)), mkSelect(row1, c.binop(token.ADD, off, ik, it))))), mkSelect(row0, c.binop(token.ADD, off, k2, it))))
	a, b := c.boundVar("a", is), c.boundVar("b", is)
	bnd(a)
	bnd(b)
	rng := mkAnd(c.cmp(token.LEQ, c.idxLit(0), a, it), c.cmp(token.LSS, a, b, it), c.cmp(token.LSS, b, ln, it))
	c.facts = append(c.facts, mkForall([]*Term{a, b}, mkImplies(rng, c.cmp(token.LEQ, mkSelect(row1, c.binop(token.ADD, off, a, it)), mkSelect(row1, c.binop(token.ADD, off, b, it)), sl.Elem()))))
	return nil, true
}

// specApp records one application of a spec function kept as an uninterpreted symbol.
type specApp struct {
	args, rows []*Term
	res        *Term
}

// specFrame: a spec function over a slice depends only on the slice's own window of the heap
// row. Two applications with equal arguments whose rows agree on that window are equal even if
// the rows differ elsewhere (e.g. after a write to another slice's spare capacity in the same
// array). The fact is emitted ground, per pair of applications: no quantified axiom.
func (c *VC) specFrame(name string, ps []*types.Var, args, rows []*Term, r *Term) {
	d := c.fn.Dir
	if c.fn.Contract != nil {
		d = c.fn.Contract.Dir
	}
	if d == nil || !d.SpecFrame || c.noName || len(rows) == 0 || strings.Contains(r.String(), "?") {
		return
	}
	if c.specApps == nil {
		c.specApps = map[string][]specApp{}
	}
	key := r.String()
	for _, a := range c.specApps[name] {
		if a.res.String() == key {
			return
		}
	}
	prev := c.specApps[name]
	c.specApps[name] = append(prev, specApp{args, rows, r})
	if len(prev) > 16 {
		prev = prev[len(prev)-16:]
	}
	it := types.Typ[types.Int]
	for _, a := range prev {
		same := true
		for k := range rows {
			if rows[k].String() != a.rows[k].String() {
				same = false
			}
		}
		if same {
			continue // congruence
		}
		var conds []*Term
		k := 0
		for i, arg := range args {
			if i >= len(ps) {
				break
			}
			conds = append(conds, mkEq(arg, a.args[i]))
			if _, ok := ps[i].Type().Underlying().(*types.Slice); ok {
				if rows[k].String() != a.rows[k].String() {
					j := c.boundVar("w", c.idxSort())
					off, ln := mkField(arg, "sl_off"), mkField(arg, "sl_len")
					pos := c.binop(token.ADD, off, j, it)
					body := mkImplies(mkAnd(c.cmp(token.LEQ, c.idxLit(0), j, it), c.cmp(token.LSS, j, ln, it)),
						mkEq(mkSelect(rows[k], pos), mkSelect(a.rows[k], pos)))
					conds = append(conds, mkForall([]*Term{j}, body))
				}
				k++
			}
		}
		c.facts = append(c.facts, mkImplies(mkAnd(conds...), mkEq(r, a.res)))
	}
}

var _ = big.NewInt

// ---------------------------------------------------------------- frame-local arrays

type keptRow struct {
	heap      string
	base, row *Term
}

// frameLocalRows: the heap rows of the array locals the contract declares `frame-local` (and that
// pass the syntactic non-escape check): a call with unknown effects cannot reach them, because
// their address was never handed to anything that could keep it.
func (c *VC) frameLocalRows(st *State) []keptRow {
	if len(c.frames) != 1 {
		return nil
	}
	d := c.fn.Dir
	if c.fn.Contract != nil {
		d = c.fn.Contract.Dir
	}
	if d == nil || len(d.FrameLocal) == 0 {
		return nil
	}
	fr := c.cur()
	var out []keptRow
	for obj := range fr.arrBoxed {
		want := false
		for _, n := range d.FrameLocal {
			if n == obj.Name() {
				want = true
			}
		}
		if !want {
			continue
		}
		if why := c.escapes(obj); why != "" {
			c.unsupportedf(obj.Pos(), "frame-local %s ignored: %s", obj.Name(), why)
			continue
		}
		hdr, ok := st.env[obj]
		if !ok {
			continue
		}
		at := obj.Type().Underlying().(*types.Array)
		hn, h := c.sliceHeap(st, at.Elem())
		base := mkField(hdr, "sl_base")
		out = append(out, keptRow{hn, base, c.sel(h, base)})
	}
	return out
}

// escapes reports why the array local obj (or a slice of it) may be reachable from outside the
// function ("" = it provably is not). Allowed uses of the array A and of its alias slices S
// (S := A[..], S = S[..], S = append(S, scalars...)): indexing, slicing into an alias, len/cap,
// range, and passing to a static function that has a (non-trusted) contract and returns no
// reference-typed result.
func (c *VC) escapes(arr types.Object) string {
	view := c.cur().view
	alias := map[types.Object]bool{arr: true}
	isAliasExpr := func(e ast.Expr) bool {
		// expression denoting (part of) the array: A, S, A[..], S[..], append(S, ...)
		for {
			switch x := ast.Unparen(e).(type) {
			case *ast.Ident:
				return alias[view.objOf(x)]
			case *ast.SliceExpr:
				e = x.X
			case *ast.CallExpr:
				if id, ok := x.Fun.(*ast.Ident); ok && id.Name == "append" && len(x.Args) > 0 {
					e = x.Args[0]
					continue
				}
				return false
			default:
				return false
			}
		}
	}
	// aliases: fixpoint over assignments
	for changed := true; changed; {
		changed = false
		ast.Inspect(c.fn.Decl.Body, func(n ast.Node) bool {
			as, ok := n.(*ast.AssignStmt)
			if !ok || len(as.Lhs) != len(as.Rhs) {
				return true
			}
			for i, r := range as.Rhs {
				if !isAliasExpr(r) {
					continue
				}
				if id, ok := as.Lhs[i].(*ast.Ident); ok {
					if o := view.objOf(id); o != nil && !alias[o] {
						if _, isVar := o.(*types.Var); isVar && o.Parent() != nil && o.Parent() != o.Pkg().Scope() {
							alias[o] = true
							changed = true
						}
					}
				}
			}
			return true
		})
	}
	why := ""
	var stack []ast.Node
	ast.Inspect(c.fn.Decl.Body, func(n ast.Node) bool {
		if n == nil {
			stack = stack[:len(stack)-1]
			return true
		}
		stack = append(stack, n)
		if _, isLit := n.(*ast.FuncLit); isLit {
			// a closure capturing the array: give up if it mentions an alias
			ast.Inspect(n, func(m ast.Node) bool {
				if id, ok := m.(*ast.Ident); ok && alias[view.objOf(id)] {
					why = "captured by a function literal"
				}
				return true
			})
			return true
		}
		id, ok := n.(*ast.Ident)
		if !ok || !alias[view.objOf(id)] || why != "" {
			return true
		}
		// climb through slicing / append wrappers to the context that consumes the reference
		i := len(stack) - 2
		var child ast.Node = id
		for i >= 0 {
			switch p := stack[i].(type) {
			case *ast.ParenExpr:
				child = p
				i--
				continue
			case *ast.SliceExpr:
				if p.X == child {
					child = p
					i--
					continue
				}
				return true // used as a bound: scalar
			case *ast.IndexExpr:
				return true // element access or scalar index
			case *ast.CallExpr:
				if f, ok := p.Fun.(*ast.Ident); ok {
					switch f.Name {
					case "len", "cap":
						return true
					case "append":
						if len(p.Args) > 0 && p.Args[0] == child {
							if p.Ellipsis.IsValid() {
								// append(S, other...) copies elements only
							}
							child = p
							i--
							continue
						}
						if p.Ellipsis.IsValid() && len(p.Args) == 2 && p.Args[1] == child {
							return true // elements copied out
						}
						why = "passed to append as an element"
						return true
					case "copy":
						return true
					}
				}
				fn := c.staticCallee(p)
				if fn == nil {
					why = "passed to a dynamic call " + exprText(c.prog.fset, p.Fun)
					return true
				}
				fi := c.prog.funcs[fn]
				if fi == nil || fi.Contract == nil || (fi.Contract.Dir != nil && fi.Contract.Dir.Trusted) {
					why = "passed to " + fn.Name() + ", which has no verified contract"
					return true
				}
				res := fn.Type().(*types.Signature).Results()
				for k := 0; k < res.Len(); k++ {
					b, ok := res.At(k).Type().Underlying().(*types.Basic)
					if !ok || b.Kind() == types.UnsafePointer {
						why = "passed to " + fn.Name() + ", which returns a non-scalar"
					}
				}
				return true
			case *ast.AssignStmt:
				for k, r := range p.Rhs {
					if r == child {
						if len(p.Lhs) != len(p.Rhs) {
							why = "assigned in a multi-value statement"
							return true
						}
						l, ok := p.Lhs[k].(*ast.Ident)
						if !ok || !alias[view.objOf(l)] {
							why = "stored outside the function's own slice variables"
						}
						return true
					}
				}
				return true // on the left-hand side
			case *ast.RangeStmt:
				if p.X == child {
					return true
				}
				return true
			case *ast.ValueSpec, *ast.DeclStmt, *ast.GenDecl:
				return true
			case *ast.BinaryExpr:
				return true // comparison with nil
			default:
				why = fmt.Sprintf("used in %T", p)
				return true
			}
		}
		return true
	})
	return why
}

// promotedViaPointer: the method selected by path on a value of type t is promoted through an
// embedded pointer field, so its receiver is that pointer and the value's address is not taken.
func promotedViaPointer(t types.Type, path []int) bool {
	for _, idx := range path[:len(path)-1] {
		if p, ok := t.Underlying().(*types.Pointer); ok {
			t = p.Elem()
		}
		st, ok := t.Underlying().(*types.Struct)
		if !ok {
			return false
		}
		t = st.Field(idx).Type()
		if _, ok := t.Underlying().(*types.Pointer); ok {
			return true
		}
	}
	return false
}

var calledRe = regexp.MustCompile(`called\("([^"]+)"\)`)

// calledTexts: the callee texts named by called("...") anywhere in the directives of the function
// under verification (only those are tracked).
func (c *VC) calledTexts() map[string]bool {
	if c.calledSet != nil {
		return c.calledSet
	}
	c.calledSet = map[string]bool{}
	d := c.fn.Dir
	if c.fn.Contract != nil {
		d = c.fn.Contract.Dir
	}
	if d == nil {
		return c.calledSet
	}
	add := func(s string) {
		for _, m := range calledRe.FindAllStringSubmatch(s, -1) {
			c.calledSet[m[1]] = true
		}
	}
	for _, cs := range d.CallSites {
		add(cs.Expr)
	}
	for _, cs := range d.Sites {
		add(cs.Expr)
	}
	for _, ld := range d.Loops {
		for _, s := range ld.Invariants {
			add(s)
		}
		for _, s := range ld.Fallthrough {
			add(s)
		}
	}
	return c.calledSet
}
