package main

import (
	"flag"
	"fmt"
	"os"
	"sort"
	"strings"
	"time"
)

func main() {
	if len(os.Args) < 2 {
		fmt.Fprintln(os.Stderr, "usage: govc check|dump ...")
		os.Exit(2)
	}
	switch os.Args[1] {
	case "check":
		os.Exit(cmdCheck(os.Args[2:]))
	case "prop":
		os.Exit(cmdProp(os.Args[2:]))
	default:
		fmt.Fprintln(os.Stderr, "unknown command")
		os.Exit(2)
	}
}

func cmdCheck(args []string) int {
	fs := flag.NewFlagSet("check", flag.ExitOnError)
	repo := fs.String("repo", "/repo", "repository")
	prop := fs.String("prop", "", "property id")
	pkgs := fs.String("pkgs", "", "comma separated package patterns")
	only := fs.String("only", "", "substring filter on function names")
	verbose := fs.Bool("v", false, "verbose")
	keep := fs.String("keep", "", "directory to keep queries in")
	qsecs := fs.Int("quick-secs", 5, "first-stage solver timeout")
	fsecs := fs.Int("secs", 20, "raced solver timeout")
	par := fs.Int("par", 14, "parallel obligations")
	fs.Parse(args)
	t0 := time.Now()
	prog, err := loadProg(*repo, strings.Split(*pkgs, ","), nil)
	if err != nil {
		fmt.Fprintln(os.Stderr, "load:", err)
		return 2
	}
	for _, e := range prog.errors {
		fmt.Fprintln(os.Stderr, "LOAD:", e)
	}
	fmt.Fprintf(os.Stderr, "loaded in %.1fs\n", time.Since(t0).Seconds())
	var targets []*FuncInfo
	var names []string
	for n := range prog.byName {
		names = append(names, n)
	}
	sort.Strings(names)
	for _, n := range names {
		fi := prog.byName[n]
		var d *Directives
		var tgt *FuncInfo
		switch fi.Kind {
		case "contract":
			if fi.Target == nil || fi.Dir.Trusted {
				continue
			}
			d, tgt = fi.Dir, fi.Target
		case "lemma":
			d, tgt = fi.Dir, fi
		default:
			continue
		}
		if *prop != "" {
			ok := false
			for _, p := range d.Props {
				if p == *prop {
					ok = true
				}
			}
			if !ok {
				continue
			}
		}
		if *only != "" && !strings.Contains(tgt.Name, *only) {
			continue
		}
		targets = append(targets, tgt)
	}
	dir := *keep
	if dir == "" {
		dir, _ = os.MkdirTemp("", "govc")
		defer os.RemoveAll(dir)
	} else {
		os.MkdirAll(dir, 0o755)
	}
	var vcs []*VC
	for _, t := range targets {
		mode := ModeBV
		d := t.Dir
		if t.Contract != nil {
			d = t.Contract.Dir
		}
		if d.Mode != nil {
			mode = *d.Mode
		}
		c := newVC(prog, t, mode)
		func() {
			defer func() {
				if r := recover(); r != nil {
					c.unsupported = append(c.unsupported, fmt.Sprintf("generator panic: %v", r))
					if *verbose {
						panic(r)
					}
				}
			}()
			c.verify()
		}()
		vcs = append(vcs, c)
	}
	fmt.Fprintf(os.Stderr, "generated in %.1fs\n", time.Since(t0).Seconds())
	solveAll(vcs, dir, *par, *qsecs, *fsecs, *verbose)
	bad := 0
	tot := 0
	for _, c := range vcs {
		fmt.Printf("== %s [%s] returns=%d obligations=%d\n", c.fn.Name, c.mode, c.nReturns, len(c.obls))
		for _, u := range c.unsupported {
			fmt.Printf("   UNSUPPORTED %s\n", u)
		}
		for _, o := range c.obls {
			tot++
			ok := o.Status == "unsat"
			if o.Canary {
				ok = o.Status == "sat"
			}
			if !ok {
				bad++
				fmt.Printf("   FAIL [%s %s %.2fs] %s   (%s) %s\n", o.Status, o.Solver, o.Secs, o.Name, o.Pos, o.Query)
				if o.Model != "" && *verbose {
					fmt.Println(indent(trunc(o.Model, 3000)))
				}
			} else if *verbose {
				fmt.Printf("   ok   [%s %s %.2fs] %s\n", o.Status, o.Solver, o.Secs, o.Name)
			}
		}
	}
	for _, e := range prog.errors {
		fmt.Println("ERROR:", e)
	}
	fmt.Printf("total obligations=%d failed=%d wall=%.1fs\n", tot, bad, time.Since(t0).Seconds())
	if bad > 0 {
		return 1
	}
	return 0
}

func trunc(s string, n int) string {
	if len(s) > n {
		return s[:n] + "..."
	}
	return s
}

func indent(s string) string {
	return "      " + strings.ReplaceAll(s, "\n", "\n      ")
}
