package main

// Resolving expressions to memory locations (see mem.go) and reading / writing through them.

import (
	"go/ast"
	"go/token"
	"go/types"
)

// idxToAddr converts an index value (Go int in the current mode) to an Int offset multiplier.
func (c *VC) idxToInt(i *Term) *Term {
	if c.mode == ModeInt {
		return i
	}
	if i.Val != nil {
		v := signedOf(i.Val, 64)
		return intLit(v)
	}
	c.assumptions["bv mode: a symbolic index into an in-memory array is converted with bv2nat"] = true
	return mk("bv2nat", sortInt, i)
}

func (c *VC) nilCheck(st *State, p *Term, pos token.Pos, text string) {
	c.panicObl(st, "nil-deref", text, pos, mkNot(mkEq(p, intLit64(0))))
}

// locate resolves e to a memory location if e designates memory.
func (c *VC) locate(st *State, e ast.Expr) (addr *Term, t types.Type, ok bool) {
	fr := c.cur()
	switch x := ast.Unparen(e).(type) {
	case *ast.Ident:
		obj := fr.view.objOf(x)
		if obj != nil && fr.boxed[obj] {
			if _, has := st.env[obj]; !has {
				c.bindVar(st, obj, c.zero(obj.Type()))
			}
			return st.env[obj], obj.Type(), true
		}
		return nil, nil, false
	case *ast.StarExpr:
		p := c.eval(st, x.X)
		c.nilCheck(st, p, x.Pos(), exprText(c.prog.fset, x))
		pt, isPtr := c.typeOf(x.X).Underlying().(*types.Pointer)
		if !isPtr {
			return nil, nil, false
		}
		return p, pt.Elem(), true
	case *ast.SelectorExpr:
		sel := fr.view.selection(x)
		if sel == nil || sel.Kind() != types.FieldVal {
			return nil, nil, false
		}
		text := exprText(c.prog.fset, x)
		xt := c.typeOf(x.X)
		var a *Term
		var t types.Type
		if pt, isPtr := xt.Underlying().(*types.Pointer); isPtr {
			a = c.eval(st, x.X)
			c.nilCheck(st, a, x.Pos(), text)
			t = pt.Elem()
		} else {
			var ok bool
			a, t, ok = c.locate(st, x.X)
			if !ok {
				return nil, nil, false
			}
		}
		a, t = c.walkPath(st, a, t, sel.Index(), x.Pos(), text)
		return a, t, a != nil
	case *ast.IndexExpr:
		xt := c.typeOf(x.X)
		text := exprText(c.prog.fset, x)
		var a *Term
		var at *types.Array
		switch u := xt.Underlying().(type) {
		case *types.Pointer:
			arr, isArr := u.Elem().Underlying().(*types.Array)
			if !isArr {
				return nil, nil, false
			}
			a = c.eval(st, x.X)
			c.nilCheck(st, a, x.Pos(), text)
			at = arr
		case *types.Array:
			var ok bool
			var t types.Type
			a, t, ok = c.locate(st, x.X)
			if !ok {
				return nil, nil, false
			}
			at = t.Underlying().(*types.Array)
		default:
			return nil, nil, false
		}
		i := c.toIdx(c.eval(st, x.Index), c.typeOf(x.Index))
		c.panicObl(st, "index", text, x.Pos(), c.inBounds(i, c.idxLit(at.Len())))
		es := c.sizeof(at.Elem())
		var off *Term
		ii := c.idxToInt(i)
		if ii.Val != nil {
			off = intLit64(ii.Val.Int64() * es)
			return addrAdd(a, ii.Val.Int64()*es), at.Elem(), true
		}
		off = mk("*", sortInt, intLit64(es), ii)
		return mk("+", sortInt, a, off), at.Elem(), true
	}
	return nil, nil, false
}

// walkPath follows a field selection path starting at the struct (or pointer to struct) stored at address a.
func (c *VC) walkPath(st *State, a *Term, t types.Type, path []int, pos token.Pos, text string) (*Term, types.Type) {
	for _, idx := range path {
		if pt, isPtr := t.Underlying().(*types.Pointer); isPtr {
			// implicit dereference of an embedded pointer
			a = c.loadAt(st, a, t)
			c.nilCheck(st, a, pos, text)
			t = pt.Elem()
		}
		stt, ok := t.Underlying().(*types.Struct)
		if !ok {
			c.unsupportedf(pos, "field selection on %s", t)
			return nil, nil
		}
		offs := c.fieldOffsets(stt)
		a = addrAdd(a, offs[idx])
		t = stt.Field(idx).Type()
	}
	return a, t
}

func (c *VC) loadPlace(st *State, a *Term, t types.Type) *Term {
	v := c.loadAt(st, a, t)
	if c.isLeaf(t) {
		c.readFact(st, v, t)
	} else if needsWF(t) || c.mode == ModeInt {
		w := c.wfAt(st, v, t)
		if !isTrue(w) {
			key := "rf:" + a.String() + ":" + types.TypeString(t, nil)
			if !c.specAxioms[key] || true {
				c.specAxioms[key] = true
				c.addFact(tTrue, w)
			}
		}
	}
	return v
}

func (c *VC) addressOf(st *State, x ast.Expr) *Term {
	if cl, ok := ast.Unparen(x).(*ast.CompositeLit); ok {
		v := c.evalCompositeLit(st, cl)
		return c.allocObj(st, c.typeOf(cl), v)
	}
	if a, _, ok := c.locate(st, x); ok {
		return a
	}
	c.unsupportedf(x.Pos(), "address-of %s", exprText(c.prog.fset, x))
	a := c.fresh("addr", sortInt)
	c.addFact(tTrue, mk(">", sortBool, a, intLit64(0)))
	return a
}

func (c *VC) allocPtr(st *State, v *Term, t types.Type) *Term { return c.allocObj(st, t, v) }

// deref loads the value of type t that pointer p points to.
func (c *VC) deref(st *State, p *Term, t types.Type, pos token.Pos, text string) *Term {
	c.nilCheck(st, p, pos, text)
	return c.loadPlace(st, p, t)
}

// fieldPath follows a selection path (with implicit dereferences) from value v of type t.
func (c *VC) fieldPath(st *State, v *Term, t types.Type, path []int, pos token.Pos, text string) *Term {
	for i, idx := range path {
		if p, ok := t.Underlying().(*types.Pointer); ok {
			// from here on everything is in memory
			c.nilCheck(st, v, pos, text)
			a, ft := c.walkPath(st, v, p.Elem(), path[i:], pos, text)
			if a == nil {
				return c.fresh("fld", sortInt)
			}
			return c.loadPlace(st, a, ft)
		}
		stt, ok := t.Underlying().(*types.Struct)
		if !ok {
			c.unsupportedf(pos, "field selection on %s", t)
			return c.fresh("fld", sortInt)
		}
		s := c.sortOf(t)
		v = mkField(v, s.Fields[idx].Name)
		t = stt.Field(idx).Type()
	}
	return v
}

// assignPath stores v at x.<path> where x is a register-resident struct value or a pointer.
func (c *VC) assignPath(st *State, x ast.Expr, xt types.Type, path []int, v *Term, pos token.Pos, text string) {
	// find the first pointer hop; before it the value lives in a register
	cur := xt
	firstPtr := -1
	for i, idx := range path {
		if p, ok := cur.Underlying().(*types.Pointer); ok {
			firstPtr = i
			_ = p
			break
		}
		cur = cur.Underlying().(*types.Struct).Field(idx).Type()
	}
	if firstPtr < 0 {
		base := c.eval(st, x)
		nv := c.updatePath(base, xt, path, v)
		c.assign(st, x, nv)
		return
	}
	base := c.eval(st, x)
	ptr := c.fieldPathValue(base, xt, path[:firstPtr])
	t := c.typeAfter(xt, path[:firstPtr])
	pt := t.Underlying().(*types.Pointer)
	c.nilCheck(st, ptr, pos, text)
	a, ft := c.walkPath(st, ptr, pt.Elem(), path[firstPtr:], pos, text)
	if a == nil {
		return
	}
	c.storeAt(st, a, ft, v, pos, text)
}

func (c *VC) fieldPathValue(v *Term, t types.Type, path []int) *Term {
	for _, idx := range path {
		s := c.sortOf(t)
		v = mkField(v, s.Fields[idx].Name)
		t = t.Underlying().(*types.Struct).Field(idx).Type()
	}
	return v
}

func (c *VC) typeAfter(t types.Type, path []int) types.Type {
	for _, idx := range path {
		t = t.Underlying().(*types.Struct).Field(idx).Type()
	}
	return t
}

func (c *VC) updatePath(base *Term, t types.Type, path []int, v *Term) *Term {
	if len(path) == 0 {
		return v
	}
	s := c.sortOf(t)
	st := t.Underlying().(*types.Struct)
	f := s.Fields[path[0]].Name
	inner := c.updatePath(mkField(base, f), st.Field(path[0]).Type(), path[1:], v)
	return mkWith(base, f, inner)
}
