package main

// SMT terms and sorts. Terms are small immutable trees; large values are
// named by fresh constants (see Ctx.name) so that printing stays linear.

import (
	"fmt"
	"go/token"
	"go/types"
	"math/big"
	"strings"
)

var typesInt = types.Typ[types.Int]

const (
	tokLEQ = token.LEQ
	tokLSS = token.LSS
	tokADD = token.ADD
	tokSUB = token.SUB
)

type SortKind int

const (
	KBool SortKind = iota
	KBV
	KInt
	KArray
	KDT
)

type Sort struct {
	Kind  SortKind
	Width int   // KBV
	Idx   *Sort // KArray
	Elem  *Sort // KArray
	Name  string
	// datatype info
	Ctor   string
	Fields []DTField
}

type DTField struct {
	Name string
	Sort *Sort
}

func (s *Sort) String() string { return s.Name }

var (
	sortBool = &Sort{Kind: KBool, Name: "Bool"}
	sortInt  = &Sort{Kind: KInt, Name: "Int"}
	bvSorts  = map[int]*Sort{}
	arrSorts = map[string]*Sort{}
)

func bvSort(w int) *Sort {
	if s, ok := bvSorts[w]; ok {
		return s
	}
	s := &Sort{Kind: KBV, Width: w, Name: fmt.Sprintf("(_ BitVec %d)", w)}
	bvSorts[w] = s
	return s
}

func arraySort(idx, elem *Sort) *Sort {
	n := fmt.Sprintf("(Array %s %s)", idx.Name, elem.Name)
	if s, ok := arrSorts[n]; ok {
		return s
	}
	s := &Sort{Kind: KArray, Idx: idx, Elem: elem, Name: n}
	arrSorts[n] = s
	return s
}

type Term struct {
	Op   string
	Args []*Term
	Sort *Sort
	// Val is set for numeric literals.
	Val *big.Int
	// Bound variables of quantifiers: Op == "forall"/"exists", Vars set, Args[0] body
	Vars []*Term
	Pats []*Term
}

func (t *Term) String() string {
	var sb strings.Builder
	t.write(&sb)
	return sb.String()
}

func (t *Term) write(sb *strings.Builder) {
	if t.Op == "forall" || t.Op == "exists" {
		sb.WriteString("(")
		sb.WriteString(t.Op)
		sb.WriteString(" (")
		for _, v := range t.Vars {
			fmt.Fprintf(sb, "(%s %s)", v.Op, v.Sort.Name)
		}
		sb.WriteString(") ")
		if len(t.Pats) > 0 {
			sb.WriteString("(! ")
			t.Args[0].write(sb)
			for _, p := range t.Pats {
				sb.WriteString(" :pattern (")
				p.write(sb)
				sb.WriteString(")")
			}
			sb.WriteString(")")
		} else {
			t.Args[0].write(sb)
		}
		sb.WriteString(")")
		return
	}
	if len(t.Args) == 0 {
		sb.WriteString(t.Op)
		return
	}
	sb.WriteString("(")
	sb.WriteString(t.Op)
	for _, a := range t.Args {
		sb.WriteString(" ")
		a.write(sb)
	}
	sb.WriteString(")")
}

func (t *Term) size() int {
	n := 1
	for _, a := range t.Args {
		n += a.size()
		if n > 1<<20 {
			return n
		}
	}
	return n
}

var (
	tTrue  = &Term{Op: "true", Sort: sortBool}
	tFalse = &Term{Op: "false", Sort: sortBool}
)

func isTrue(t *Term) bool  { return t == tTrue || (t.Op == "true" && len(t.Args) == 0) }
func isFalse(t *Term) bool { return t == tFalse || (t.Op == "false" && len(t.Args) == 0) }

func mk(op string, s *Sort, args ...*Term) *Term {
	return &Term{Op: op, Args: args, Sort: s}
}

func mkConst(name string, s *Sort) *Term { return &Term{Op: name, Sort: s} }

func termEq(a, b *Term) bool {
	if a == b {
		return true
	}
	if a.Op != b.Op || len(a.Args) != len(b.Args) || a.Sort != b.Sort || len(a.Vars) != 0 || len(b.Vars) != 0 {
		return false
	}
	if len(a.Args) == 0 {
		return true
	}
	if len(a.Args) > 3 {
		return false
	}
	for i := range a.Args {
		if !termEq(a.Args[i], b.Args[i]) {
			return false
		}
	}
	return true
}

func mkNot(a *Term) *Term {
	if isTrue(a) {
		return tFalse
	}
	if isFalse(a) {
		return tTrue
	}
	if a.Op == "not" {
		return a.Args[0]
	}
	return mk("not", sortBool, a)
}

func mkAnd(as ...*Term) *Term {
	var out []*Term
	for _, a := range as {
		if isTrue(a) {
			continue
		}
		if isFalse(a) {
			return tFalse
		}
		if a.Op == "and" {
			out = append(out, a.Args...)
			continue
		}
		out = append(out, a)
	}
	if len(out) == 0 {
		return tTrue
	}
	if len(out) == 1 {
		return out[0]
	}
	return mk("and", sortBool, out...)
}

func mkOr(as ...*Term) *Term {
	var out []*Term
	for _, a := range as {
		if isFalse(a) {
			continue
		}
		if isTrue(a) {
			return tTrue
		}
		if a.Op == "or" {
			out = append(out, a.Args...)
			continue
		}
		out = append(out, a)
	}
	if len(out) == 0 {
		return tFalse
	}
	if len(out) == 1 {
		return out[0]
	}
	return mk("or", sortBool, out...)
}

func mkImplies(a, b *Term) *Term {
	if isTrue(a) {
		return b
	}
	if isFalse(a) || isTrue(b) {
		return tTrue
	}
	if isFalse(b) {
		return mkNot(a)
	}
	return mk("=>", sortBool, a, b)
}

func mkIte(c, a, b *Term) *Term {
	if isTrue(c) {
		return a
	}
	if isFalse(c) {
		return b
	}
	if termEq(a, b) {
		return a
	}
	if a.Sort == sortBool {
		if isTrue(a) && isFalse(b) {
			return c
		}
		if isFalse(a) && isTrue(b) {
			return mkNot(c)
		}
	}
	return mk("ite", a.Sort, c, a, b)
}

func mkEq(a, b *Term) *Term {
	if termEq(a, b) {
		return tTrue
	}
	if a.Val != nil && b.Val != nil && a.Sort == b.Sort {
		if a.Val.Cmp(b.Val) == 0 {
			return tTrue
		}
		return tFalse
	}
	if a.Sort != b.Sort {
		panic(fmt.Sprintf("mkEq sort mismatch: %s : %s  vs  %s : %s", a, a.Sort, b, b.Sort))
	}
	if a.Sort == sortBool {
		if isTrue(b) {
			return a
		}
		if isFalse(b) {
			return mkNot(a)
		}
		if isTrue(a) {
			return b
		}
		if isFalse(a) {
			return mkNot(b)
		}
	}
	return mk("=", sortBool, a, b)
}

func mkSelect(arr, i *Term) *Term {
	// select over store with syntactically equal / distinct literal index
	for arr.Op == "store" {
		si := arr.Args[1]
		if termEq(si, i) {
			return arr.Args[2]
		}
		if si.Val != nil && i.Val != nil && si.Val.Cmp(i.Val) != 0 {
			arr = arr.Args[0]
			continue
		}
		break
	}
	return mk("select", arr.Sort.Elem, arr, i)
}

func mkStore(arr, i, v *Term) *Term {
	if v.Sort != arr.Sort.Elem {
		panic(fmt.Sprintf("mkStore sort mismatch: storing %s into %s", v.Sort, arr.Sort))
	}
	return mk("store", arr.Sort, arr, i, v)
}

// mkField selects a datatype field, simplifying over constructors and ite.
func mkField(t *Term, field string) *Term {
	s := t.Sort
	if s.Kind != KDT {
		panic("mkField on non-datatype " + s.Name + " term " + t.String())
	}
	for i, f := range s.Fields {
		if f.Name == field {
			if t.Op == s.Ctor && len(t.Args) == len(s.Fields) {
				return t.Args[i]
			}
			if t.Op == "ite" && (t.Args[1].Op == s.Ctor || t.Args[2].Op == s.Ctor) {
				return mkIte(t.Args[0], mkField(t.Args[1], field), mkField(t.Args[2], field))
			}
			return mk(f.Name, f.Sort, t)
		}
	}
	panic("no field " + field + " in " + s.Name)
}

func mkCtor(s *Sort, args ...*Term) *Term {
	if len(args) != len(s.Fields) {
		panic("mkCtor arity " + s.Name)
	}
	for i, a := range args {
		if a.Sort != s.Fields[i].Sort {
			panic(fmt.Sprintf("mkCtor %s field %s: got %s want %s", s.Name, s.Fields[i].Name, a.Sort, s.Fields[i].Sort))
		}
	}
	if len(args) == 0 {
		return mk(s.Ctor, s)
	}
	return mk(s.Ctor, s, args...)
}

// mkWith returns t with field replaced.
func mkWith(t *Term, field string, v *Term) *Term {
	s := t.Sort
	args := make([]*Term, len(s.Fields))
	for i, f := range s.Fields {
		if f.Name == field {
			args[i] = v
		} else {
			args[i] = mkField(t, f.Name)
		}
	}
	return mkCtor(s, args...)
}

func intLit(v *big.Int) *Term {
	if v.Sign() < 0 {
		return &Term{Op: "(- " + new(big.Int).Neg(v).String() + ")", Sort: sortInt, Val: new(big.Int).Set(v)}
	}
	return &Term{Op: v.String(), Sort: sortInt, Val: new(big.Int).Set(v)}
}

func intLit64(v int64) *Term { return intLit(big.NewInt(v)) }

// bvLit builds a bit-vector literal of width w holding v mod 2^w.
func bvLit(v *big.Int, w int) *Term {
	m := new(big.Int).Lsh(big.NewInt(1), uint(w))
	u := new(big.Int).Mod(v, m)
	return &Term{Op: fmt.Sprintf("(_ bv%s %d)", u.String(), w), Sort: bvSort(w), Val: u}
}

func mkForall(vars []*Term, body *Term, pats ...*Term) *Term {
	if isTrue(body) {
		return tTrue
	}
	return &Term{Op: "forall", Vars: vars, Args: []*Term{body}, Sort: sortBool, Pats: pats}
}

func mkExists(vars []*Term, body *Term) *Term {
	if isFalse(body) {
		return tFalse
	}
	return &Term{Op: "exists", Vars: vars, Args: []*Term{body}, Sort: sortBool}
}

// subst replaces constants by name.
func subst(t *Term, m map[string]*Term) *Term {
	if len(t.Args) == 0 && len(t.Vars) == 0 {
		if r, ok := m[t.Op]; ok {
			return r
		}
		return t
	}
	changed := false
	args := make([]*Term, len(t.Args))
	for i, a := range t.Args {
		args[i] = subst(a, m)
		if args[i] != a {
			changed = true
		}
	}
	var pats []*Term
	for _, p := range t.Pats {
		q := subst(p, m)
		if q != p {
			changed = true
		}
		pats = append(pats, q)
	}
	if !changed {
		return t
	}
	n := *t
	n.Args = args
	n.Pats = pats
	return &n
}

// symbols collects the free constant / function symbols of t.
func symbols(t *Term, out map[string]bool) {
	if t.Val == nil {
		out[t.Op] = true
	}
	for _, a := range t.Args {
		symbols(a, out)
	}
	for _, p := range t.Pats {
		symbols(p, out)
	}
}

// ---------------------------------------------------------------- select with look-through

type rowCopyDef struct{ dst, dpos, src, spos, n *Term }

// sel is mkSelect that looks through let-definitions, stores, ite-merges and bulk-copy rows,
// so that reads of freshly written memory become syntactically the written value.
func (c *VC) sel(arr, i *Term) *Term { return c.selDepth(arr, i, 0) }

func (c *VC) selDepth(arr, i *Term, depth int) *Term {
	for steps := 0; steps < 64; steps++ {
		t := arr
		if len(arr.Args) == 0 {
			if d, ok := c.defs[arr.Op]; ok {
				t = d
			} else if rc, ok := c.rowCopies[arr.Op]; ok && depth < 6 {
				it := typesInt
				in := mkAnd(c.cmp(tokLEQ, rc.dpos, i, it), c.cmp(tokLSS, i, c.binop(tokADD, rc.dpos, rc.n, it), it))
				si := c.binop(tokADD, rc.spos, c.binop(tokSUB, i, rc.dpos, it), it)
				return mkIte(in, c.selDepth(rc.src, si, depth+1), c.selDepth(rc.dst, i, depth+1))
			}
		}
		switch t.Op {
		case "store":
			si := t.Args[1]
			if termEq(si, i) {
				return t.Args[2]
			}
			if si.Val != nil && i.Val != nil && si.Val.Cmp(i.Val) != 0 {
				arr = t.Args[0]
				continue
			}
			// distinct constant offsets from the same symbolic base: (bvadd x c1) vs (bvadd x c2)
			if distinctOffsets(si, i) {
				arr = t.Args[0]
				continue
			}
			if depth < 4 && arr.Sort.Idx == sortInt {
				// heap level: case split on the address
				return mkIte(mkEq(si, i), t.Args[2], c.selDepth(t.Args[0], i, depth+1))
			}
		case "ite":
			if depth < 5 {
				return mkIte(t.Args[0], c.selDepth(t.Args[1], i, depth+1), c.selDepth(t.Args[2], i, depth+1))
			}
		}
		break
	}
	return mkSelect(arr, i)
}

// distinctOffsets: a and b are base+c1 and base+c2 with the same base and different constants.
func distinctOffsets(a, b *Term) bool {
	split := func(t *Term) (*Term, *Term) {
		if (t.Op == "bvadd" || t.Op == "+") && len(t.Args) == 2 && t.Args[1].Val != nil {
			return t.Args[0], t.Args[1]
		}
		return t, nil
	}
	ab, ac := split(a)
	bb, bc := split(b)
	if !termEq(ab, bb) {
		return false
	}
	if ac == nil && bc == nil {
		return false
	}
	var av, bv int64
	if ac != nil {
		if !ac.Val.IsInt64() {
			return false
		}
		av = ac.Val.Int64()
	}
	if bc != nil {
		if !bc.Val.IsInt64() {
			return false
		}
		bv = bc.Val.Int64()
	}
	return av != bv && av < 1<<32 && bv < 1<<32 && av >= 0 && bv >= 0
}
