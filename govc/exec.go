package main

// Forward symbolic execution of Go statements with state merging at joins.

import (
	"fmt"
	"go/ast"
	"go/token"
	"go/types"
	"sort"
	"strings"
)

type State struct {
	env   map[types.Object]*Term
	heaps map[string]*Term
	alloc *Term
	pc    *Term
	// flags: ghost booleans "a call whose callee reads <text> was executed on this path since the
	// start of the current loop iteration (or of the function)" - read by called("<text>")
	flags map[string]*Term
}

func (s *State) clone() *State {
	n := &State{env: make(map[types.Object]*Term, len(s.env)), heaps: make(map[string]*Term, len(s.heaps)), alloc: s.alloc, pc: s.pc}
	for k, v := range s.env {
		n.env[k] = v
	}
	for k, v := range s.heaps {
		n.heaps[k] = v
	}
	if len(s.flags) > 0 {
		n.flags = make(map[string]*Term, len(s.flags))
		for k, v := range s.flags {
			n.flags[k] = v
		}
	}
	return n
}

func (s *State) dead() bool { return isFalse(s.pc) }

func (s *State) set(o *State) {
	s.env, s.heaps, s.alloc, s.pc, s.flags = o.env, o.heaps, o.alloc, o.pc, o.flags
}

func (s *State) kill() { s.pc = tFalse }

type retState struct {
	st   *State
	vals []*Term
	pos  token.Pos
}

type target struct {
	label     string
	isLoop    bool
	isSwitch  bool
	breaks    []*State
	continues []*State
}

type frame struct {
	fi       *FuncInfo
	view     infoView
	pkg      *pkgRef
	rets     []*retState
	results  []*types.Var
	targets  []*target
	gotos    map[string][]*State
	loopOrd  int
	boxed    map[types.Object]bool // locals living in the pointer heap
	arrBoxed map[types.Object]bool // array locals living in a slice-heap row
	loopIdx  []*Term
	defers   []*ast.DeferStmt
	tailRet  *ast.ReturnStmt
	lits     map[string]*ast.FuncLit
	litEnv   map[string]*State
}

type pkgRef struct{}

func (c *VC) cur() *frame { return c.frames[len(c.frames)-1] }

// heapDefault is the value of a heap that state st has not touched yet: the
// initial heap constant, or (after a havoc of all heaps) a constant tied to the
// havoc generation marker.
func (c *VC) heapDefault(st *State, name string, s *Sort) *Term {
	if c.heapSorts == nil {
		c.heapSorts = map[string]*Sort{}
	}
	c.heapSorts[name] = s
	// most specific generation marker first: this heap, its prefix class, all heaps
	for _, k := range []string{"#gen:" + name, "#gen:HP_*", "#gen:HM*", "#gen"} {
		if k == "#gen:HP_*" && !strings.HasPrefix(name, "HP_") {
			continue
		}
		if k == "#gen:HM*" && !strings.HasPrefix(name, "HM") {
			continue
		}
		if g, ok := st.heaps[k]; ok {
			return c.declare(name+"!g"+sanitize(g.Op), s)
		}
	}
	return c.declare(name+"!0", s)
}

func (c *VC) heapOr(st *State, name string, s *Sort) *Term {
	if h, ok := st.heaps[name]; ok {
		return h
	}
	return c.heapDefault(st, name, s)
}

func (c *VC) sliceHeapName(elem types.Type) string { return "HS_" + leafClassDeep(elem) }

// leafClassDeep names the element class of a slice heap: leaf classes as for pointer heaps,
// structs and arrays by their (sanitised) type so that rows of different element types never mix.
func leafClassDeep(t types.Type) string {
	switch u := t.Underlying().(type) {
	case *types.Struct:
		n := sanitize(types.TypeString(t, func(p *types.Package) string { return p.Name() }))
		if len(n) > 60 {
			n = fmt.Sprintf("%s_%x", n[:48], hashStr(n))
		}
		return "st_" + n
	case *types.Array:
		return fmt.Sprintf("arr%d_%s", u.Len(), leafClassDeep(u.Elem()))
	}
	return leafClass(t)
}

// leafClass groups leaf Go types that may legitimately share memory cells (same width and
// representation class); each class has its own heap, so that e.g. an int32 cell and a
// pointer cell never interfere even when both are modelled by the SMT sort Int.
func leafClass(t types.Type) string {
	switch u := t.Underlying().(type) {
	case *types.Basic:
		if w, signed, ok := intInfo(u); ok {
			// signed and unsigned cells are kept apart: in int mode a value is a mathematical
			// integer with the range of its type, so reading a cell at the other signedness
			// would need a conversion that a type-safe program never relies on
			if signed {
				return fmt.Sprintf("i%d", w)
			}
			return fmt.Sprintf("u%d", w)
		}
		if w, ok := isFloat(u); ok {
			return fmt.Sprintf("f%d", w)
		}
		switch u.Kind() {
		case types.Bool, types.UntypedBool:
			return "bool"
		case types.String, types.UntypedString:
			return "str"
		}
		return "ptr"
	case *types.Slice:
		return "slice"
	case *types.Interface:
		return "iface"
	case *types.Map:
		return "map"
	}
	return "ptr"
}

func (c *VC) ptrHeapNameT(t types.Type) string { return "HP_" + leafClass(t) }

func (c *VC) sliceHeap(st *State, elem types.Type) (string, *Term) {
	n := c.sliceHeapName(elem)
	if h, ok := st.heaps[n]; ok {
		return n, h
	}
	h := c.heapDefault(st, n, arraySort(sortInt, arraySort(c.idxSort(), c.sortOf(elem))))
	return n, h
}

func (c *VC) ptrHeap(st *State, t types.Type) (string, *Term) {
	n := c.ptrHeapNameT(t)
	if h, ok := st.heaps[n]; ok {
		return n, h
	}
	h := c.heapDefault(st, n, arraySort(sortInt, c.sortOf(t)))
	return n, h
}

// merge a and b into a new state.
func (c *VC) merge(a, b *State) *State {
	if a.dead() {
		return b
	}
	if b.dead() {
		return a
	}
	cond := c.name("pc", a.pc)
	a.pc = cond
	n := &State{env: map[types.Object]*Term{}, heaps: map[string]*Term{}}
	for k, va := range a.env {
		vb, ok := b.env[k]
		if !ok {
			continue
		}
		if va == vb || termEq(va, vb) {
			n.env[k] = va
		} else {
			n.env[k] = c.name(k.Name(), mkIte(cond, va, vb))
		}
	}
	keys := map[string]bool{}
	for k := range a.heaps {
		keys[k] = true
	}
	for k := range b.heaps {
		keys[k] = true
	}
	// heaps that neither state has materialised but whose default value differs between the two
	// states (different havoc generations) must be merged explicitly
	for hn, hs := range c.heapSorts {
		if keys[hn] {
			continue
		}
		da, db := c.heapDefault(a, hn, hs), c.heapDefault(b, hn, hs)
		if !termEq(da, db) {
			a.heaps[hn], b.heaps[hn] = da, db
			keys[hn] = true
		}
	}
	for _, k := range sortedKeys(keys) {
		va, oka := a.heaps[k]
		vb, okb := b.heaps[k]
		if strings.HasPrefix(k, "#gen") {
			if !oka || !okb || !termEq(va, vb) {
				n.heaps[k] = c.fresh("gen", sortInt)
			} else {
				n.heaps[k] = va
			}
			continue
		}
		if !oka {
			va = c.heapDefault(a, k, vb.Sort)
		}
		if !okb {
			vb = c.heapDefault(b, k, va.Sort)
		}
		if va == vb || termEq(va, vb) {
			n.heaps[k] = va
		} else {
			n.heaps[k] = c.name(k, mkIte(cond, va, vb))
		}
	}
	if a.alloc == b.alloc || termEq(a.alloc, b.alloc) {
		n.alloc = a.alloc
	} else {
		n.alloc = c.name("alloc", mkIte(cond, a.alloc, b.alloc))
	}
	n.pc = c.name("pc", mkOr(cond, b.pc))
	if len(a.flags) > 0 || len(b.flags) > 0 {
		n.flags = map[string]*Term{}
		fk := map[string]bool{}
		for k := range a.flags {
			fk[k] = true
		}
		for k := range b.flags {
			fk[k] = true
		}
		for _, k := range sortedKeys(fk) {
			va, vb := a.flags[k], b.flags[k]
			if va == nil {
				va = tFalse
			}
			if vb == nil {
				vb = tFalse
			}
			if va == vb || termEq(va, vb) {
				n.flags[k] = va
			} else {
				n.flags[k] = c.name("called", mkIte(cond, va, vb))
			}
		}
	}
	return n
}

func (c *VC) mergeAll(ss []*State) *State {
	var r *State
	for _, s := range ss {
		if s == nil || s.dead() {
			continue
		}
		if r == nil {
			r = s
		} else {
			r = c.merge(r, s)
		}
	}
	if r == nil {
		return &State{env: map[types.Object]*Term{}, heaps: map[string]*Term{}, alloc: intLit64(1), pc: tFalse}
	}
	return r
}

func (c *VC) unsupportedf(pos token.Pos, format string, args ...any) {
	msg := fmt.Sprintf("%s: %s", c.prog.pos(pos), fmt.Sprintf(format, args...))
	c.unsupported = append(c.unsupported, msg)
}

// ---------------------------------------------------------------- statements

func (c *VC) execBlock(st *State, stmts []ast.Stmt) {
	for i, s := range stmts {
		// tail duplication: a switch/if directly followed by the block's final return is
		// executed with the return duplicated into every branch (no merge of the branch states),
		// which keeps per-path formulas small (e.g. the 10-way switch of AppendVarint).
		if !st.dead() && i == len(stmts)-2 {
			if ret, ok := stmts[i+1].(*ast.ReturnStmt); ok {
				switch s.(type) {
				case *ast.SwitchStmt, *ast.IfStmt:
					c.cur().tailRet = ret
					c.exec(st, s)
					c.cur().tailRet = nil
					if !st.dead() {
						c.exec(st, ret)
					}
					return
				}
			}
		}
		if st.dead() {
			// a labeled statement may revive the state via pending gotos
			if ls, ok := s.(*ast.LabeledStmt); ok {
				if _, has := c.cur().gotos[ls.Label.Name]; !has {
					continue
				}
			} else {
				continue
			}
		}
		c.exec(st, s)
	}
}

func (c *VC) exec(st *State, s ast.Stmt) {
	c.siteAsserts(st, s, false)
	defer c.siteAsserts(st, s, true)
	switch s := s.(type) {
	case *ast.BlockStmt:
		c.execBlock(st, s.List)
	case *ast.ExprStmt:
		if call, ok := s.X.(*ast.CallExpr); ok {
			c.evalCall(st, call)
		} else {
			c.eval(st, s.X)
		}
	case *ast.AssignStmt:
		c.execAssign(st, s)
	case *ast.IncDecStmt:
		t := c.typeOf(s.X)
		v := c.eval(st, s.X)
		op := token.ADD
		if s.Tok == token.DEC {
			op = token.SUB
		}
		c.assign(st, s.X, c.binop(op, v, c.numLit(bigOne, t), t))
	case *ast.DeclStmt:
		gd, ok := s.Decl.(*ast.GenDecl)
		if !ok || gd.Tok != token.VAR {
			return
		}
		for _, sp := range gd.Specs {
			vs := sp.(*ast.ValueSpec)
			if len(vs.Values) == len(vs.Names) {
				for i, n := range vs.Names {
					v := c.eval(st, vs.Values[i])
					c.defineVar(st, n, c.coerce(st, v, c.typeOf(vs.Values[i]), c.objType(n)))
				}
			} else if len(vs.Values) == 0 {
				for _, n := range vs.Names {
					obj := c.cur().view.objOf(n)
					if obj == nil {
						continue
					}
					c.defineVar(st, n, c.zero(obj.Type()))
				}
			} else {
				vals := c.evalMulti(st, vs.Values[0])
				for i, n := range vs.Names {
					c.defineVar(st, n, vals[i])
				}
			}
		}
	case *ast.IfStmt:
		tail := c.cur().tailRet
		c.cur().tailRet = nil
		if s.Init != nil {
			c.exec(st, s.Init)
		}
		cond := c.evalCond(st, s.Cond)
		a := st.clone()
		a.pc = mkAnd(st.pc, cond)
		b := st.clone()
		b.pc = mkAnd(st.pc, mkNot(cond))
		c.execBlock(a, s.Body.List)
		if tail != nil && !a.dead() {
			c.exec(a, tail)
		}
		if s.Else != nil {
			if _, isIf := s.Else.(*ast.IfStmt); isIf {
				c.cur().tailRet = tail
			}
			c.exec(b, s.Else)
			c.cur().tailRet = nil
			if _, isIf := s.Else.(*ast.IfStmt); !isIf && tail != nil && !b.dead() {
				c.exec(b, tail)
			}
		} else if tail != nil && !b.dead() {
			c.exec(b, tail)
		}
		st.set(c.merge(a, b))
	case *ast.ForStmt:
		c.execFor(st, s, "")
	case *ast.RangeStmt:
		c.execRange(st, s, "")
	case *ast.SwitchStmt:
		c.execSwitch(st, s, "")
	case *ast.TypeSwitchStmt:
		c.execTypeSwitch(st, s, "")
	case *ast.LabeledStmt:
		lbl := s.Label.Name
		if pend, ok := c.cur().gotos[lbl]; ok {
			delete(c.cur().gotos, lbl)
			all := append([]*State{st.clone()}, pend...)
			st.set(c.mergeAll(all))
		}
		switch inner := s.Stmt.(type) {
		case *ast.ForStmt:
			c.execFor(st, inner, lbl)
		case *ast.RangeStmt:
			c.execRange(st, inner, lbl)
		case *ast.SwitchStmt:
			c.execSwitch(st, inner, lbl)
		case *ast.TypeSwitchStmt:
			c.execTypeSwitch(st, inner, lbl)
		default:
			c.exec(st, s.Stmt)
		}
	case *ast.ReturnStmt:
		c.execReturn(st, s)
	case *ast.BranchStmt:
		c.execBranch(st, s)
	case *ast.EmptyStmt:
	case *ast.DeferStmt:
		c.cur().defers = append(c.cur().defers, s)
		c.unsupportedf(s.Pos(), "defer (deferred call is ignored)")
	case *ast.GoStmt:
		c.unsupportedf(s.Pos(), "go statement")
	case *ast.SendStmt, *ast.SelectStmt:
		c.unsupportedf(s.Pos(), "channel operation")
	default:
		c.unsupportedf(s.Pos(), "statement %T", s)
	}
}

func (c *VC) execBranch(st *State, s *ast.BranchStmt) {
	fr := c.cur()
	switch s.Tok {
	case token.BREAK, token.CONTINUE:
		lbl := ""
		if s.Label != nil {
			lbl = s.Label.Name
		}
		for i := len(fr.targets) - 1; i >= 0; i-- {
			t := fr.targets[i]
			if lbl != "" && t.label != lbl {
				continue
			}
			if s.Tok == token.CONTINUE && !t.isLoop {
				continue
			}
			if s.Tok == token.BREAK {
				t.breaks = append(t.breaks, st.clone())
			} else {
				t.continues = append(t.continues, st.clone())
			}
			st.kill()
			return
		}
		c.unsupportedf(s.Pos(), "branch target not found")
		st.kill()
	case token.GOTO:
		if fr.gotos == nil {
			fr.gotos = map[string][]*State{}
		}
		fr.gotos[s.Label.Name] = append(fr.gotos[s.Label.Name], st.clone())
		st.kill()
	case token.FALLTHROUGH:
		// handled in execSwitch
	}
}

func (c *VC) execReturn(st *State, s *ast.ReturnStmt) {
	fr := c.cur()
	var vals []*Term
	sig := fr.fi.Obj.Type().(*types.Signature)
	switch {
	case len(s.Results) == 0:
		for _, r := range fr.results {
			vals = append(vals, c.readVar(st, r))
		}
	case len(s.Results) == 1 && sig.Results().Len() > 1:
		vals = c.evalMulti(st, s.Results[0])
	default:
		for i, e := range s.Results {
			v := c.eval(st, e)
			vals = append(vals, c.coerce(st, v, c.typeOf(e), sig.Results().At(i).Type()))
		}
	}
	if !st.dead() {
		fr.rets = append(fr.rets, &retState{st: st.clone(), vals: vals, pos: s.Pos()})
	}
	st.kill()
}

func (c *VC) execAssign(st *State, s *ast.AssignStmt) {
	if s.Tok != token.ASSIGN && s.Tok != token.DEFINE {
		// op-assign
		var op token.Token
		switch s.Tok {
		case token.ADD_ASSIGN:
			op = token.ADD
		case token.SUB_ASSIGN:
			op = token.SUB
		case token.MUL_ASSIGN:
			op = token.MUL
		case token.QUO_ASSIGN:
			op = token.QUO
		case token.REM_ASSIGN:
			op = token.REM
		case token.AND_ASSIGN:
			op = token.AND
		case token.OR_ASSIGN:
			op = token.OR
		case token.XOR_ASSIGN:
			op = token.XOR
		case token.SHL_ASSIGN:
			op = token.SHL
		case token.SHR_ASSIGN:
			op = token.SHR
		case token.AND_NOT_ASSIGN:
			op = token.AND_NOT
		}
		lt := c.typeOf(s.Lhs[0])
		lv := c.eval(st, s.Lhs[0])
		rv := c.eval(st, s.Rhs[0])
		v := c.arith(st, op, lv, rv, lt, c.typeOf(s.Rhs[0]), s.Pos(), exprText(c.prog.fset, s.Lhs[0])+" "+s.Tok.String()+" "+exprText(c.prog.fset, s.Rhs[0]))
		c.assign(st, s.Lhs[0], v)
		return
	}
	var vals []*Term
	var vtypes []types.Type
	if len(s.Rhs) == 1 && len(s.Lhs) > 1 {
		vals = c.evalMulti(st, s.Rhs[0])
		if tv, ok := c.cur().view.typeOf(s.Rhs[0]); ok {
			if tup, ok := tv.Type.(*types.Tuple); ok {
				for i := 0; i < tup.Len(); i++ {
					vtypes = append(vtypes, tup.At(i).Type())
				}
			}
		}
	} else {
		for _, r := range s.Rhs {
			vals = append(vals, c.eval(st, r))
			vtypes = append(vtypes, c.typeOf(r))
		}
	}
	for i, l := range s.Lhs {
		if i >= len(vals) {
			break
		}
		if id, ok := l.(*ast.Ident); ok && id.Name == "_" {
			continue
		}
		v := vals[i]
		if s.Tok == token.DEFINE {
			if id, ok := l.(*ast.Ident); ok {
				if def := c.cur().view.main.Defs[id]; def != nil {
					if i < len(vtypes) && vtypes[i] != nil {
						v = c.coerce(st, v, vtypes[i], def.Type())
					}
					c.defineVar(st, id, v)
					continue
				}
			}
		}
		if i < len(vtypes) && vtypes[i] != nil {
			v = c.coerce(st, v, vtypes[i], c.typeOf(l))
		}
		c.assign(st, l, v)
	}
}

func (c *VC) defineVar(st *State, id *ast.Ident, v *Term) {
	if id.Name == "_" {
		return
	}
	obj := c.cur().view.objOf(id)
	if obj == nil {
		return
	}
	c.bindVar(st, obj, v)
}

func (c *VC) bindVar(st *State, obj types.Object, v *Term) {
	fr := c.cur()
	if fr.boxed[obj] {
		st.env[obj] = c.allocObj(st, obj.Type(), v)
		return
	}
	if fr.arrBoxed[obj] {
		// array stored as a row of the slice heap: env holds the Slice header
		at := obj.Type().Underlying().(*types.Array)
		base := st.alloc
		st.alloc = c.name("alloc", mk("+", sortInt, st.alloc, intLit64(1)))
		hn, h := c.sliceHeap(st, at.Elem())
		st.heaps[hn] = mkStore(h, base, v)
		n := c.idxLit(at.Len())
		st.env[obj] = mkCtor(c.sliceSort(), base, c.idxLit(0), n, n)
		return
	}
	st.env[obj] = c.nameVal(obj.Name(), v)
}

func (c *VC) nameVal(hint string, v *Term) *Term {
	if v.size() > 12 {
		return c.name(hint, v)
	}
	return v
}

func (c *VC) readVar(st *State, obj types.Object) *Term {
	fr := c.cur()
	v, ok := st.env[obj]
	if !ok {
		// not yet bound (e.g. named result, or variable from an enclosing scope): zero value / fresh
		if vr, isVar := obj.(*types.Var); isVar && vr.Pkg() != nil && vr.Parent() == vr.Pkg().Scope() {
			return c.global(st, vr)
		}
		z := c.fresh(obj.Name(), c.sortOf(obj.Type()))
		c.addFact(tTrue, c.wfAt(st, z, obj.Type()))
		st.env[obj] = z
		return z
	}
	if fr.boxed[obj] {
		return c.loadAt(st, v, obj.Type())
	}
	if fr.arrBoxed[obj] {
		at := obj.Type().Underlying().(*types.Array)
		_, h := c.sliceHeap(st, at.Elem())
		return c.sel(h, mkField(v, "sl_base"))
	}
	return v
}

func (c *VC) writeVar(st *State, obj types.Object, v *Term) {
	fr := c.cur()
	if fr.boxed[obj] {
		addr, ok := st.env[obj]
		if !ok {
			c.bindVar(st, obj, v)
			return
		}
		c.storeAt(st, addr, obj.Type(), v, token.NoPos, obj.Name())
		return
	}
	if fr.arrBoxed[obj] {
		hd, ok := st.env[obj]
		if !ok {
			c.bindVar(st, obj, v)
			return
		}
		at := obj.Type().Underlying().(*types.Array)
		hn, h := c.sliceHeap(st, at.Elem())
		st.heaps[hn] = mkStore(h, mkField(hd, "sl_base"), v)
		return
	}
	if vr, isVar := obj.(*types.Var); isVar && vr.Pkg() != nil && vr.Parent() == vr.Pkg().Scope() {
		c.unsupportedf(token.NoPos, "assignment to package-level variable %s", obj.Name())
		return
	}
	st.env[obj] = c.nameVal(obj.Name(), v)
}

// global returns the (fixed) value of a package-level variable.
func (c *VC) global(st *State, v *types.Var) *Term {
	name := "G_" + sanitize(v.Pkg().Name()) + "_" + sanitize(v.Name())
	s := c.sortOf(v.Type())
	g := c.declare(name, s)
	key := "global:" + name
	if !c.specAxioms[key] {
		c.specAxioms[key] = true
		c.assumptions["package-level variable "+v.Pkg().Name()+"."+v.Name()+" is read as a fixed value (never reassigned)"] = true
		c.facts = append(c.facts, c.wf(g, v.Type()))
		if types.Identical(v.Type(), types.Universe.Lookup("error").Type()) {
			// error sentinels are non-nil
			c.facts = append(c.facts, mkNot(mkEq(g, intLit64(0))))
		}
		if _, ok := v.Type().Underlying().(*types.Slice); ok {
			c.facts = append(c.facts, mk("<", sortBool, mkField(g, "sl_base"), c.allocInit()))
		}
	}
	return g
}

func (c *VC) allocInit() *Term { return c.declare("alloc!0", sortInt) }

// wfAt: well-formedness plus allocatedness in state st.
func (c *VC) wfAt(st *State, v *Term, t types.Type) *Term {
	w := c.wf(v, t)
	switch u := t.Underlying().(type) {
	case *types.Slice:
		w = mkAnd(w, mk("<", sortBool, mkField(v, "sl_base"), st.alloc))
	case *types.Pointer:
		// a non-nil pointer designates an allocated object: its whole extent lies below alloc
		w = mkAnd(w, mkOr(mkEq(v, intLit64(0)), mk("<=", sortBool, addrAdd(v, c.sizeof(u.Elem())), st.alloc)))
	case *types.Struct:
		s := c.sortOf(t)
		for i := 0; i < u.NumFields(); i++ {
			ft := u.Field(i).Type()
			switch ft.Underlying().(type) {
			case *types.Slice, *types.Pointer, *types.Struct:
				w = mkAnd(w, c.wfAt(st, mkField(v, s.Fields[i].Name), ft))
			}
		}
	}
	return w
}

// ---------------------------------------------------------------- loops

type loopEffects struct {
	vars      map[types.Object]bool
	heaps     bool            // some heap may change
	all       bool            // unknown effects: every heap may change
	heapNames map[string]bool // when !all: the heaps that may change ("HP_*" / "HM*" = every heap with that prefix)
}

func (ef *loopEffects) touch(names ...string) {
	ef.heaps = true
	for _, n := range names {
		ef.heapNames[n] = true
	}
}

func (c *VC) effectsOf(nodes ...ast.Node) loopEffects {
	ef := loopEffects{vars: map[types.Object]bool{}, heapNames: map[string]bool{}}
	view := c.cur().view
	var markLHS func(e ast.Expr)
	markLHS = func(e ast.Expr) {
		switch e := e.(type) {
		case *ast.Ident:
			if o := view.objOf(e); o != nil {
				ef.vars[o] = true
				if c.cur().boxed[o] {
					ef.touch("HP_*")
				}
				if c.cur().arrBoxed[o] {
					if at, ok := o.Type().Underlying().(*types.Array); ok {
						ef.touch(c.sliceHeapName(at.Elem()))
					}
				}
			}
		case *ast.ParenExpr:
			markLHS(e.X)
		case *ast.SelectorExpr:
			if tv, ok := view.typeOf(e.X); ok {
				if _, isPtr := tv.Type.Underlying().(*types.Pointer); isPtr {
					ef.touch("HP_*")
					return
				}
			}
			markLHS(e.X)
		case *ast.IndexExpr:
			if tv, ok := view.typeOf(e.X); ok {
				switch u := tv.Type.Underlying().(type) {
				case *types.Array:
					markLHS(e.X)
					return
				case *types.Slice:
					ef.touch(c.sliceHeapName(u.Elem()))
					return
				case *types.Map:
					ef.touch("HM*")
					return
				case *types.Pointer:
					ef.touch("HP_*")
					return
				}
			}
			ef.heaps, ef.all = true, true
		case *ast.StarExpr:
			ef.touch("HP_*")
		}
	}
	for _, n := range nodes {
		if n == nil {
			continue
		}
		ast.Inspect(n, func(n ast.Node) bool {
			switch n := n.(type) {
			case *ast.AssignStmt:
				for _, l := range n.Lhs {
					markLHS(l)
				}
			case *ast.IncDecStmt:
				markLHS(n.X)
			case *ast.RangeStmt:
				if n.Key != nil {
					markLHS(n.Key)
				}
				if n.Value != nil {
					markLHS(n.Value)
				}
			case *ast.UnaryExpr:
				if n.Op == token.AND {
					markLHS(n.X)
				}
			case *ast.CallExpr:
				if !c.callIsHeapPure(n) {
					if names, ok := c.callHeapNames(n); ok {
						ef.touch(names...)
					} else {
						ef.heaps, ef.all = true, true
					}
				}
			case *ast.FuncLit:
				return true
			}
			return true
		})
	}
	return ef
}

// callIsHeapPure reports whether a call cannot change any heap (used for loop havoc sets).
func (c *VC) callIsHeapPure(call *ast.CallExpr) bool {
	view := c.cur().view
	if tv, ok := view.typeOf(call.Fun); ok && tv.IsType() {
		// conversion; []byte(s) allocates but does not modify existing memory
		return true
	}
	switch f := ast.Unparen(call.Fun).(type) {
	case *ast.Ident:
		if b, ok := view.objOf(f).(*types.Builtin); ok {
			switch b.Name() {
			case "len", "cap", "min", "max", "panic", "make", "new":
				return true
			}
			return false
		}
	}
	fn := c.staticCallee(call)
	if fn == nil {
		return false
	}
	if fi := c.prog.funcs[fn]; fi != nil {
		if fi.Ghost {
			return true
		}
		if fi.Contract != nil && !c.shouldInline(fi) {
			return !contractModifies(fi.Contract)
		}
		if c.shouldInline(fi) && fi.Decl != nil && fi.Decl.Body != nil {
			if v, ok := c.heapPureMemo[fi]; ok {
				return v
			}
			c.heapPureMemo[fi] = true // recursion guard
			c.pushFrame(fi)
			ef := c.effectsOf(fi.Decl.Body)
			c.popFrame()
			c.heapPureMemo[fi] = !ef.heaps
			return !ef.heaps
		}
	}
	return c.isPureName(fn)
}

func contractModifies(k *FuncInfo) bool {
	mod := false
	ast.Inspect(k.Decl.Body, func(n ast.Node) bool {
		if call, ok := n.(*ast.CallExpr); ok {
			if id, ok := call.Fun.(*ast.Ident); ok && strings.HasPrefix(id.Name, "modifies") {
				mod = true
			}
		}
		return true
	})
	return mod
}

func (c *VC) loopDir(ord int) *LoopDir {
	fi := c.cur().fi
	d := fi.Dir
	if fi.Contract != nil {
		d = fi.Contract.Dir
	}
	if d == nil {
		return nil
	}
	return d.Loops[ord]
}

func (c *VC) dirPkgPos(body *ast.BlockStmt) token.Pos {
	if c.loopEnd == nil {
		c.loopEnd = map[token.Pos]token.Pos{}
	}
	c.loopEnd[body.Lbrace+1] = body.Rbrace
	return body.Lbrace + 1
}

// evalDirective type-checks a directive expression at pos (function scope) and evaluates it in ghost mode.
func (c *VC) evalDirective(st *State, src string, pos token.Pos) (*Term, error) {
	fr := c.cur()
	e, err := c.prog.checkExprAt(fr.fi.Pkg, pos, src)
	if err != nil {
		return nil, err
	}
	c.ghost++
	c.mathInts++
	defer func() { c.ghost--; c.mathInts-- }()
	return c.eval(st, e), nil
}

func (c *VC) execFor(st *State, s *ast.ForStmt, label string) {
	fr := c.cur()
	fr.loopOrd++
	ord := fr.loopOrd
	if s.Init != nil {
		c.exec(st, s.Init)
	}
	ld := c.loopDir(ord)
	tg := &target{label: label, isLoop: true}
	if ld != nil && ld.Unroll > 0 {
		c.unrollFor(st, s, tg, ld, ord)
		return
	}
	ef := c.effectsOf(s.Cond, s.Post, s.Body)
	pos := c.dirPkgPos(s.Body)
	c.loopCut(st, tg, ld, ord, ef, pos, s.Pos(),
		func(b *State) *Term {
			if s.Cond == nil {
				return tTrue
			}
			return c.evalCond(b, s.Cond)
		},
		func(b *State) {
			if ld != nil && ld.Split && len(s.Body.List) > 0 {
				// the body ends in a switch: every case end is a path of its own
				if sw, ok := s.Body.List[len(s.Body.List)-1].(*ast.SwitchStmt); ok {
					saveS, saveT := c.splitTail, c.splitTailTarget
					c.splitTail, c.splitTailTarget = sw, tg
					defer func() { c.splitTail, c.splitTailTarget = saveS, saveT }()
				}
			}
			c.execBlock(b, s.Body.List)
		},
		func(b *State) {
			if s.Post != nil {
				c.exec(b, s.Post)
			}
		})
}

// loopCut implements the inductive-invariant treatment of a loop.
func (c *VC) loopCut(st *State, tg *target, ld *LoopDir, ord int, ef loopEffects, dirPos, loopPos token.Pos,
	cond func(*State) *Term, body func(*State), post func(*State)) {
	fr := c.cur()
	var invs []string
	var decr string
	if ld != nil {
		invs = ld.Invariants
		decr = ld.Decreases
	}
	// 1. invariants on entry
	for _, inv := range invs {
		t, err := c.evalDirective(st, inv, dirPos)
		if err != nil {
			c.prog.errors = append(c.prog.errors, fmt.Sprintf("CONTRACT-STALE %s loop %d invariant %q: %v", fr.fi.Name, ord, inv, err))
			continue
		}
		c.addObl("invariant-entry", fmt.Sprintf("loop %d: %s", ord, inv), loopPos, st.pc, t)
	}
	// 2. havoc
	pre := st.clone()
	var objs []types.Object
	for o := range ef.vars {
		if _, ok := st.env[o]; ok {
			objs = append(objs, o)
		}
	}
	sort.Slice(objs, func(i, j int) bool { return objs[i].Pos() < objs[j].Pos() })
	for _, o := range objs {
		if fr.boxed[o] || fr.arrBoxed[o] {
			continue
		}
		old := st.env[o]
		nv := c.fresh(o.Name(), old.Sort)
		st.env[o] = nv
	}
	if ef.heaps {
		if ef.all {
			c.havocHeaps(st)
		} else {
			c.havocNamedHeaps(st, ef.heapNames)
		}
		na := c.fresh("alloc", sortInt)
		c.addFact(tTrue, mk(">=", sortBool, na, pre.alloc))
		st.alloc = na
	}
	for _, o := range objs {
		if fr.boxed[o] || fr.arrBoxed[o] {
			continue
		}
		c.addFact(tTrue, c.wfAt(st, st.env[o], o.Type()))
	}
	if c.afterHavoc != nil {
		c.afterHavoc(st)
		c.afterHavoc = nil
	}
	// assume invariants
	for _, inv := range invs {
		t, err := c.evalDirective(st, inv, dirPos)
		if err != nil {
			continue
		}
		st.pc = mkAnd(st.pc, t)
	}
	st.pc = c.name("pc", st.pc)
	var decr0 *Term
	if decr != "" {
		d, err := c.evalDirective(st, decr, dirPos)
		if err == nil {
			decr0 = c.name("decr", d)
		}
	}
	head := st.clone()
	cnd := cond(st)
	b := st.clone()
	b.pc = mkAnd(st.pc, cnd)
	b.flags = nil // called(...) speaks about the current iteration
	exit := st.clone()
	exit.pc = mkAnd(st.pc, mkNot(cnd))
	fr.targets = append(fr.targets, tg)
	if ld != nil {
		for _, lm := range ld.Lemmas {
			// a proved lemma instantiated at the head of the iteration: its requires are
			// obligations here, its ensures become facts
			hs := b
			if i := strings.Index(lm, "==>"); i >= 0 {
				// guarded instance: cond ==> lemma(...)
				g, err := c.evalDirective(b, strings.TrimSpace(lm[:i]), dirPos)
				if err != nil {
					c.prog.errors = append(c.prog.errors, fmt.Sprintf("CONTRACT-STALE %s loop %d lemma %q: %v", fr.fi.Name, ord, lm, err))
					continue
				}
				hs = b.clone()
				hs.pc = mkAnd(b.pc, g)
				lm = strings.TrimSpace(lm[i+3:])
			}
			if e, err := c.prog.checkExprAt(fr.fi.Pkg, dirPos, lm); err != nil {
				c.prog.errors = append(c.prog.errors, fmt.Sprintf("CONTRACT-STALE %s loop %d lemma %q: %v", fr.fi.Name, ord, lm, err))
			} else if call, ok := e.(*ast.CallExpr); ok {
				c.ghost++
				c.mathInts++
				c.allowLemma = true
				c.evalCall(hs, call)
				c.allowLemma = false
				c.mathInts--
				c.ghost--
			}
		}
	}
	body(b)
	if ld != nil && !b.dead() {
		// `loop N fallthrough e`: e holds whenever the end of the body is reached by falling through
		// (not by continue, break or return) - with called("f") a must-call rule for the iteration
		// the clause is read in the scope at the END of the body: the body's own locals are visible
		ftPos := dirPos
		if e, ok := c.loopEnd[dirPos]; ok && e.IsValid() {
			ftPos = e
		}
		for _, ft := range ld.Fallthrough {
			t, err := c.evalDirective(b, ft, ftPos)
			if err != nil {
				c.prog.errors = append(c.prog.errors, fmt.Sprintf("CONTRACT-STALE %s loop %d fallthrough %q: %v", fr.fi.Name, ord, ft, err))
				continue
			}
			c.addObl("loop-fallthrough", fmt.Sprintf("loop %d: %s", ord, ft), loopPos, b.pc, t)
		}
	}
	all := append([]*State{b}, tg.continues...)
	if ld != nil && ld.Split {
		// one set of step obligations per path through the body (fall-through and each
		// continue), instead of one over the merged state: smaller queries without ite-merged heaps
		fr.targets = fr.targets[:len(fr.targets)-1]
		pn := 0
		for _, p := range all {
			if p.dead() {
				continue
			}
			pn++
			post(p)
			for _, inv := range invs {
				t, err := c.evalDirective(p, inv, dirPos)
				if err != nil {
					continue
				}
				c.addObl("invariant-step", fmt.Sprintf("loop %d path %d: %s", ord, pn, inv), loopPos, p.pc, t)
			}
			if decr0 != nil {
				d, err := c.evalDirective(p, decr, dirPos)
				if err == nil {
					it := types.Typ[types.Int]
					c.addObl("decreases", fmt.Sprintf("loop %d path %d: %s", ord, pn, decr), loopPos, p.pc,
						mkAnd(c.cmp(token.GEQ, decr0, c.idxLit(0), it), c.cmp(token.LSS, d, decr0, it)))
				}
			}
		}
		outs := append([]*State{exit}, tg.breaks...)
		st.set(c.mergeAll(outs))
		return
	}
	b2 := c.mergeAll(all)
	if !b2.dead() {
		post(b2)
	}
	fr.targets = fr.targets[:len(fr.targets)-1]
	if !b2.dead() {
		for _, inv := range invs {
			t, err := c.evalDirective(b2, inv, dirPos)
			if err != nil {
				continue
			}
			c.addObl("invariant-step", fmt.Sprintf("loop %d: %s", ord, inv), loopPos, b2.pc, t)
		}
		if decr0 != nil {
			d, err := c.evalDirective(b2, decr, dirPos)
			if err == nil {
				it := types.Typ[types.Int]
				c.addObl("decreases", fmt.Sprintf("loop %d: %s", ord, decr), loopPos, b2.pc,
					mkAnd(c.cmp(token.GEQ, decr0, c.idxLit(0), it), c.cmp(token.LSS, d, decr0, it)))
			}
		}
	}
	_ = head
	outs := append([]*State{exit}, tg.breaks...)
	st.set(c.mergeAll(outs))
}

func sortedKeysT(m map[string]*Term) []string {
	var ks []string
	for k := range m {
		ks = append(ks, k)
	}
	sort.Strings(ks)
	return ks
}

// havocUntouchedHeaps: after a heap-havocking loop or call, heaps that were never
// materialised in st.heaps must not silently keep their initial value. We record
// a generation marker: any heap first touched afterwards gets a fresh constant.
// havocNamedHeaps forgets only the listed heaps ("HP_*" / "HM*": all with that prefix). Heaps that
// were never touched before and are named exactly are materialised first so that they get a fresh value.
func (c *VC) havocNamedHeaps(st *State, names map[string]bool) {
	for _, hn := range sortedKeysT(st.heaps) {
		if strings.HasPrefix(hn, "#gen") {
			continue
		}
		hit := names[hn] || (names["HP_*"] && strings.HasPrefix(hn, "HP_")) || (names["HM*"] && strings.HasPrefix(hn, "HM"))
		if hit {
			st.heaps[hn] = c.fresh(hn, st.heaps[hn].Sort)
		}
	}
	// heaps named but not yet materialised: they would silently keep their default value; since the
	// sort is unknown here, fall back to a generation marker only when a prefix class is involved
	for n := range names {
		if n == "HP_*" || n == "HM*" {
			st.heaps["#gen:"+n] = c.fresh("gen", sortInt)
			continue
		}
		if _, ok := st.heaps[n]; !ok {
			st.heaps["#gen:"+n] = c.fresh("gen", sortInt)
		}
	}
}

// callHeapNames: the heaps a non-pure call may modify, when that is statically known.
func (c *VC) callHeapNames(call *ast.CallExpr) ([]string, bool) {
	view := c.cur().view
	if id, ok := ast.Unparen(call.Fun).(*ast.Ident); ok {
		if b, ok := view.objOf(id).(*types.Builtin); ok {
			switch b.Name() {
			case "append", "copy":
				if tv, ok := view.typeOf(call.Args[0]); ok {
					if sl, ok := tv.Type.Underlying().(*types.Slice); ok {
						return []string{c.sliceHeapName(sl.Elem())}, true
					}
				}
			case "delete", "clear":
				return []string{"HM*"}, true
			}
			return nil, false
		}
	}
	fn := c.staticCallee(call)
	if fn == nil {
		return nil, false
	}
	fi := c.prog.funcs[fn]
	if fi == nil || fi.Contract == nil || c.shouldInline(fi) {
		return nil, false
	}
	K := fi.Contract
	kview := c.prog.view(K.Pkg)
	var names []string
	ok := true
	ast.Inspect(K.Decl.Body, func(n ast.Node) bool {
		cl, isCall := n.(*ast.CallExpr)
		if !isCall {
			return true
		}
		id, isId := cl.Fun.(*ast.Ident)
		if !isId || !strings.HasPrefix(id.Name, "modifies") {
			return true
		}
		if id.Name == "modifiesAll" || len(cl.Args) == 0 {
			ok = false
			return false
		}
		tv, has := kview.typeOf(cl.Args[0])
		if !has {
			ok = false
			return false
		}
		switch u := tv.Type.Underlying().(type) {
		case *types.Slice:
			names = append(names, c.sliceHeapName(u.Elem()))
		case *types.Pointer:
			names = append(names, "HP_*")
		case *types.Map:
			names = append(names, "HM*")
		default:
			ok = false
		}
		return true
	})
	return names, ok
}

func (c *VC) havocHeaps(st *State) {
	for _, hn := range sortedKeysT(st.heaps) {
		if strings.HasPrefix(hn, "#gen") {
			delete(st.heaps, hn)
			continue
		}
		st.heaps[hn] = c.fresh(hn, st.heaps[hn].Sort)
	}
	st.heaps["#gen"] = c.fresh("gen", sortInt)
}

func (c *VC) unrollFor(st *State, s *ast.ForStmt, tg *target, ld *LoopDir, ord int) {
	fr := c.cur()
	var exits []*State
	fr.targets = append(fr.targets, tg)
	for i := 0; i < ld.Unroll; i++ {
		if st.dead() {
			break
		}
		cnd := tTrue
		if s.Cond != nil {
			cnd = c.evalCond(st, s.Cond)
		}
		ex := st.clone()
		ex.pc = mkAnd(st.pc, mkNot(cnd))
		exits = append(exits, ex)
		st.pc = mkAnd(st.pc, cnd)
		tg.continues = nil
		c.execBlock(st, s.Body.List)
		all := append([]*State{st.clone()}, tg.continues...)
		st.set(c.mergeAll(all))
		if s.Post != nil && !st.dead() {
			c.exec(st, s.Post)
		}
	}
	fr.targets = fr.targets[:len(fr.targets)-1]
	if !st.dead() {
		cnd := tTrue
		if s.Cond != nil {
			cnd = c.evalCond(st, s.Cond)
		}
		kind := "unwind"
		o := c.addObl(kind, fmt.Sprintf("loop %d exits within %d iterations", ord, ld.Unroll), s.Pos(), st.pc, mkNot(cnd))
		if ld.Bounded {
			o.Bounded = fmt.Sprintf("bounded(%d)", ld.Unroll)
			// a bounded stand-in assumes rather than proves the bound
			o.Goal = tTrue
			o.Status, o.Solver = "unsat", "bounded-assumed"
		}
		ex := st.clone()
		ex.pc = mkAnd(st.pc, mkNot(cnd))
		exits = append(exits, ex)
	}
	exits = append(exits, tg.breaks...)
	st.set(c.mergeAll(exits))
}

func (c *VC) execRange(st *State, s *ast.RangeStmt, label string) {
	fr := c.cur()
	fr.loopOrd++
	ord := fr.loopOrd
	ld := c.loopDir(ord)
	xt := c.typeOf(s.X)
	it := types.Typ[types.Int]
	tg := &target{label: label, isLoop: true}
	pos := c.dirPkgPos(s.Body)

	var n *Term                        // iteration count
	var elem func(*State, *Term) *Term // element at index
	var elemT types.Type
	switch u := xt.Underlying().(type) {
	case *types.Slice:
		x := c.eval(st, s.X)
		n = mkField(x, "sl_len")
		elemT = u.Elem()
		elem = func(b *State, i *Term) *Term { return c.sliceRead(b, x, i, u.Elem()) }
	case *types.Array:
		x := c.eval(st, s.X)
		n = c.idxLit(u.Len())
		elemT = u.Elem()
		elem = func(b *State, i *Term) *Term { return c.sel(x, i) }
	case *types.Pointer:
		if at, ok := u.Elem().Underlying().(*types.Array); ok {
			p := c.eval(st, s.X)
			n = c.idxLit(at.Len())
			elemT = at.Elem()
			elem = func(b *State, i *Term) *Term {
				es := c.sizeof(at.Elem())
				return c.loadAt(b, mk("+", sortInt, p, mk("*", sortInt, intLit64(es), c.idxToInt(i))), at.Elem())
			}
		}
	case *types.Basic:
		if _, _, ok := intInfo(u); ok {
			x := c.eval(st, s.X)
			n = c.convertInt(x, xt, it)
		} else if u.Kind() == types.String {
			if s.Value == nil {
				// index-only iteration over a string still steps by rune; unsupported precisely
			}
			c.execRangeString(st, s, tg, ld, ord)
			return
		}
	}
	if n == nil {
		// map / channel / func iteration: arbitrary number of iterations with fresh key/value
		c.execRangeOpaque(st, s, tg, ld, ord)
		return
	}
	n = c.name("rangeN", n)
	ef := c.effectsOf(s.Body)
	if s.Tok == token.ASSIGN {
		ef2 := c.effectsOf(s)
		for k := range ef2.vars {
			ef.vars[k] = true
		}
	}
	// hidden index
	idxObj := c.prog.loopIndexObj(fr.fi.Pkg)
	idx := c.idxLit(0)
	hidden := types.NewVar(token.NoPos, nil, fmt.Sprintf("range%d", ord), it)
	st.env[hidden] = idx
	ef.vars[hidden] = true
	if idxObj != nil {
		st.env[idxObj] = idx
		ef.vars[idxObj] = true
	}
	bindKV := func(b *State) {
		i := b.env[hidden]
		if idxObj != nil {
			b.env[idxObj] = i
		}
		if s.Key != nil {
			if id, ok := s.Key.(*ast.Ident); !ok || id.Name != "_" {
				kv := i
				if s.Tok == token.DEFINE {
					c.defineVar(b, s.Key.(*ast.Ident), kv)
				} else {
					c.assign(b, s.Key, kv)
				}
			}
		}
		if s.Value != nil && elem != nil {
			if id, ok := s.Value.(*ast.Ident); !ok || id.Name != "_" {
				ev := elem(b, i)
				if needsWF(elemT) || c.mode == ModeInt {
					c.addFact(tTrue, c.wfAt(b, ev, elemT))
				}
				if s.Tok == token.DEFINE {
					c.defineVar(b, s.Value.(*ast.Ident), ev)
				} else {
					c.assign(b, s.Value, ev)
				}
			}
		}
	}
	// implicit invariant 0 <= idx <= n is added to user invariants
	c.afterHavoc = func(h *State) {
		if idxObj != nil {
			h.env[idxObj] = h.env[hidden]
		}
		// the hidden index satisfies 0 <= i <= n (assumed at the loop head below): index
		// arithmetic on it cannot wrap
		if hv := h.env[hidden]; c.mode == ModeInt && hv != nil && len(hv.Args) == 0 && hv.Val == nil {
			c.varBounds[hv.Op] = interval{bigInt(0), pow2(maxLenBits)}
		}
	}
	c.loopCutWithImplicit(st, tg, ld, ord, ef, pos, s.Pos(),
		func(b *State) *Term {
			i := b.env[hidden]
			return mkAnd(c.cmp(token.LEQ, c.idxLit(0), i, it), c.cmp(token.LEQ, i, n, it))
		},
		func(b *State) *Term { return c.cmp(token.LSS, b.env[hidden], n, it) },
		func(b *State) {
			bindKV(b)
			c.execBlock(b, s.Body.List)
		},
		func(b *State) {
			b.env[hidden] = c.binop(token.ADD, b.env[hidden], c.idxLit(1), it)
			if idxObj != nil {
				b.env[idxObj] = b.env[hidden]
			}
		})
	delete(st.env, hidden)
}

// loopCutWithImplicit is loopCut plus an engine-supplied invariant (assumed at the head, and
// trivially preserved by construction of the desugaring).
func (c *VC) loopCutWithImplicit(st *State, tg *target, ld *LoopDir, ord int, ef loopEffects, dirPos, loopPos token.Pos,
	implicit func(*State) *Term, cond func(*State) *Term, body func(*State), post func(*State)) {
	c.loopCut(st, tg, ld, ord, ef, dirPos, loopPos,
		func(b *State) *Term {
			b.pc = mkAnd(b.pc, implicit(b))
			return cond(b)
		}, body, post)
}

func (c *VC) execRangeOpaque(st *State, s *ast.RangeStmt, tg *target, ld *LoopDir, ord int) {
	c.eval(st, s.X)
	ef := c.effectsOf(s.Body)
	if s.Tok == token.ASSIGN {
		ef2 := c.effectsOf(s)
		for k := range ef2.vars {
			ef.vars[k] = true
		}
	}
	more := func(b *State) *Term { return c.fresh("more", sortBool) }
	c.loopCut(st, tg, ld, ord, ef, c.dirPkgPos(s.Body), s.Pos(), more,
		func(b *State) {
			for _, kv := range []ast.Expr{s.Key, s.Value} {
				if kv == nil {
					continue
				}
				if id, ok := kv.(*ast.Ident); ok && id.Name == "_" {
					continue
				}
				t := c.typeOf(kv)
				v := c.fresh("rng", c.sortOf(t))
				c.addFact(tTrue, c.wfAt(b, v, t))
				if id, ok := kv.(*ast.Ident); ok && s.Tok == token.DEFINE {
					c.defineVar(b, id, v)
				} else {
					c.assign(b, kv, v)
				}
			}
			c.execBlock(b, s.Body.List)
		}, func(b *State) {})
}

// execRangeString: for i, r := range str. The rune decoding is abstracted by the
// assumed contract of utf8.DecodeRuneInString: width in 1..4 and within the string,
// width==1 and r == s[i] when s[i] < 0x80.
func (c *VC) execRangeString(st *State, s *ast.RangeStmt, tg *target, ld *LoopDir, ord int) {
	fr := c.cur()
	it := types.Typ[types.Int]
	x := c.eval(st, s.X)
	n := c.name("strN", mkField(x, "st_len"))
	ef := c.effectsOf(s.Body)
	if s.Tok == token.ASSIGN {
		ef2 := c.effectsOf(s)
		for k := range ef2.vars {
			ef.vars[k] = true
		}
	}
	hidden := types.NewVar(token.NoPos, nil, fmt.Sprintf("range%d", ord), it)
	st.env[hidden] = c.idxLit(0)
	ef.vars[hidden] = true
	idxObj := c.prog.loopIndexObj(fr.fi.Pkg)
	if idxObj != nil {
		st.env[idxObj] = c.idxLit(0)
		ef.vars[idxObj] = true
	}
	c.assumptions["range over string: utf8 decoding abstracted (width 1..4 within the string; ASCII bytes decode to themselves with width 1)"] = true
	var width *Term
	if idxObj != nil {
		c.afterHavoc = func(h *State) { h.env[idxObj] = h.env[hidden] }
	}
	c.loopCutWithImplicit(st, tg, ld, ord, ef, c.dirPkgPos(s.Body), s.Pos(),
		func(b *State) *Term {
			i := b.env[hidden]
			return mkAnd(c.cmp(token.LEQ, c.idxLit(0), i, it), c.cmp(token.LEQ, i, n, it))
		},
		func(b *State) *Term { return c.cmp(token.LSS, b.env[hidden], n, it) },
		func(b *State) {
			i := b.env[hidden]
			if idxObj != nil {
				b.env[idxObj] = i
			}
			rt := types.Typ[types.Rune]
			r := c.fresh("rune", c.sortOf(rt))
			width = c.fresh("rwidth", c.idxSort())
			bt := types.Typ[types.Uint8]
			b0 := c.sel(mkField(x, "st_arr"), c.binop(token.ADD, mkField(x, "st_off"), i, it))
			ascii := c.cmp(token.LSS, b0, c.numLit(bigInt(0x80), bt), bt)
			c.addFact(b.pc, mkAnd(
				c.cmp(token.LEQ, c.idxLit(1), width, it), c.cmp(token.LEQ, width, c.idxLit(4), it),
				c.cmp(token.LEQ, c.binop(token.ADD, i, width, it), n, it),
				c.inRange(r, rt),
				c.cmp(token.GEQ, r, c.numLit(bigInt(0), rt), rt), c.cmp(token.LEQ, r, c.numLit(bigInt(0x10FFFF), rt), rt),
				mkImplies(ascii, mkAnd(mkEq(width, c.idxLit(1)), mkEq(r, c.convertInt(b0, bt, rt)))),
				mkImplies(mkNot(ascii), c.cmp(token.GEQ, r, c.numLit(bigInt(0x80), rt), rt)),
			))
			if s.Key != nil {
				if id, ok := s.Key.(*ast.Ident); !ok || id.Name != "_" {
					if s.Tok == token.DEFINE {
						c.defineVar(b, s.Key.(*ast.Ident), i)
					} else {
						c.assign(b, s.Key, i)
					}
				}
			}
			if s.Value != nil {
				if id, ok := s.Value.(*ast.Ident); !ok || id.Name != "_" {
					if s.Tok == token.DEFINE {
						c.defineVar(b, s.Value.(*ast.Ident), r)
					} else {
						c.assign(b, s.Value, r)
					}
				}
			}
			b.env[hidden] = c.binop(token.ADD, i, width, it) // advance now; body sees key var, not hidden
			c.execBlock(b, s.Body.List)
		},
		func(b *State) {
			if idxObj != nil {
				b.env[idxObj] = b.env[hidden]
			}
		})
	delete(st.env, hidden)
}

// ---------------------------------------------------------------- switch

func (c *VC) execSwitch(st *State, s *ast.SwitchStmt, label string) {
	fr := c.cur()
	tail := fr.tailRet
	fr.tailRet = nil
	if s.Init != nil {
		c.exec(st, s.Init)
	}
	var tag *Term
	var tagT types.Type
	if s.Tag != nil {
		tag = c.eval(st, s.Tag)
		tag = c.nameVal("tag", tag)
		tagT = c.typeOf(s.Tag)
	}
	tg := &target{label: label, isSwitch: true}
	fr.targets = append(fr.targets, tg)
	var ends []*State
	rest := st.clone() // state in which no earlier case matched
	var defaultClause *ast.CaseClause
	var fall *State
	clauses := s.Body.List
	// default is taken only if no case matches, regardless of position; fallthrough
	// into/out of default follows source order.
	type pending struct {
		cc   *ast.CaseClause
		body *State
	}
	var order []pending
	for _, cl := range clauses {
		cc := cl.(*ast.CaseClause)
		if cc.List == nil {
			defaultClause = cc
			order = append(order, pending{cc, nil})
			continue
		}
		var conds []*Term
		for _, e := range cc.List {
			if tag != nil {
				v := c.eval(rest, e)
				conds = append(conds, c.equal(rest, tag, c.coerce(rest, v, c.typeOf(e), tagT), tagT))
			} else {
				conds = append(conds, c.evalCond(rest, e))
			}
		}
		cond := mkOr(conds...)
		b := rest.clone()
		b.pc = mkAnd(rest.pc, cond)
		rest.pc = c.nameVal2("pc", mkAnd(rest.pc, mkNot(cond)))
		order = append(order, pending{cc, b})
	}
	for i := range order {
		if order[i].cc == defaultClause {
			order[i].body = rest
		}
	}
	if defaultClause == nil {
		ends = append(ends, rest)
	}
	for _, p := range order {
		b := p.body
		if fall != nil {
			b = c.merge(fall, b)
			fall = nil
		}
		c.execBlock(b, p.cc.Body)
		if n := len(p.cc.Body); n > 0 {
			if br, ok := p.cc.Body[n-1].(*ast.BranchStmt); ok && br.Tok == token.FALLTHROUGH {
				fall = b
				continue
			}
		}
		if tail != nil && !b.dead() {
			c.exec(b, tail)
		}
		if c.splitTail == s && c.splitTailTarget != nil && !b.dead() {
			// last statement of a loop body verified per path: the case end is the end of an iteration
			c.splitTailTarget.continues = append(c.splitTailTarget.continues, b.clone())
			b.pc = tFalse
		}
		ends = append(ends, b)
	}
	fr.targets = fr.targets[:len(fr.targets)-1]
	ends = append(ends, tg.breaks...)
	st.set(c.mergeAll(ends))
}

func (c *VC) nameVal2(hint string, v *Term) *Term {
	if v.size() > 24 {
		return c.name(hint, v)
	}
	return v
}

func (c *VC) execTypeSwitch(st *State, s *ast.TypeSwitchStmt, label string) {
	fr := c.cur()
	if s.Init != nil {
		c.exec(st, s.Init)
	}
	// evaluate the operand for effects
	var x ast.Expr
	switch a := s.Assign.(type) {
	case *ast.AssignStmt:
		x = a.Rhs[0].(*ast.TypeAssertExpr).X
	case *ast.ExprStmt:
		x = a.X.(*ast.TypeAssertExpr).X
	}
	c.eval(st, x)
	tg := &target{label: label, isSwitch: true}
	fr.targets = append(fr.targets, tg)
	var ends []*State
	rest := st.clone()
	hasDefault := false
	for _, cl := range s.Body.List {
		cc := cl.(*ast.CaseClause)
		b := rest.clone()
		if cc.List == nil {
			hasDefault = true
		}
		cond := c.fresh("tcase", sortBool)
		b.pc = mkAnd(rest.pc, cond)
		if obj := fr.view.implicit(cc); obj != nil {
			v := c.fresh(obj.Name(), c.sortOf(obj.Type()))
			c.addFact(tTrue, c.wfAt(b, v, obj.Type()))
			b.env[obj] = v
		}
		c.execBlock(b, cc.Body)
		ends = append(ends, b)
	}
	if !hasDefault {
		ends = append(ends, rest)
	}
	fr.targets = fr.targets[:len(fr.targets)-1]
	ends = append(ends, tg.breaks...)
	st.set(c.mergeAll(ends))
}

// siteAsserts: `//@ site <stmt>: e` states that e holds immediately before every statement of the
// function under verification whose source text starts with <stmt> (first line).
// siteOrdinal: 1-based position of s, in source order, among the statements of the function under
// verification whose text matches the site directive.
func (c *VC) siteOrdinal(s ast.Stmt, cs CallSiteDir) int {
	n, found := 0, 0
	ast.Inspect(c.fn.Decl.Body, func(nd ast.Node) bool {
		x, ok := nd.(ast.Stmt)
		if !ok || found > 0 {
			return found == 0
		}
		switch x.(type) {
		case *ast.BlockStmt, *ast.LabeledStmt:
			return true
		}
		text := exprText(c.prog.fset, x)
		if i := strings.IndexByte(text, '\n'); i >= 0 {
			text = text[:i]
		}
		text = strings.TrimSpace(text)
		match := cs.Callee == text
		if strings.HasSuffix(cs.Callee, "...") {
			match = strings.HasPrefix(text, strings.TrimSpace(strings.TrimSuffix(cs.Callee, "...")))
		}
		if match {
			n++
			if x == s {
				found = n
			}
		}
		return true
	})
	return found
}

func (c *VC) siteAsserts(st *State, s ast.Stmt, after bool) {
	if c.ghost > 0 || len(c.frames) != 1 {
		return
	}
	d := c.fn.Dir
	if c.fn.Contract != nil {
		d = c.fn.Contract.Dir
	}
	if d == nil || len(d.Sites) == 0 {
		return
	}
	switch s.(type) {
	case *ast.BlockStmt, *ast.LabeledStmt:
		return
	}
	text := exprText(c.prog.fset, s)
	if i := strings.IndexByte(text, '\n'); i >= 0 {
		text = text[:i]
	}
	text = strings.TrimSpace(text)
	for _, cs := range d.Sites {
		if strings.HasSuffix(cs.Callee, "...") {
			// prefix form for compound statements: `site for _, key := range keys...: e`
			if !strings.HasPrefix(text, strings.TrimSpace(strings.TrimSuffix(cs.Callee, "..."))) {
				continue
			}
		} else if cs.Callee != text {
			continue
		}
		if cs.After != after {
			continue
		}
		if cs.Ord > 0 && c.siteOrdinal(s, cs) != cs.Ord {
			continue
		}
		if cs.Lemma {
			c.siteHitsAdd(cs)
			if !st.dead() {
				at := s.Pos()
				if after {
					at = s.End()
				}
				c.instantiateLemma(st, cs.Expr, at, fmt.Sprintf("site %q", cs.Callee))
			}
			continue
		}
		if c.siteHits == nil {
			c.siteHits = map[string]int{}
		}
		c.siteHits[fmt.Sprintf("%d %s: %s", cs.Ord, cs.Callee, cs.Expr)]++
		if st.dead() {
			continue
		}
		t, err := c.evalDirective(st, cs.Expr, s.Pos())
		if err != nil {
			c.prog.errors = append(c.prog.errors, fmt.Sprintf("CONTRACT-STALE %s site %q %q: %v", c.fn.Name, cs.Callee, cs.Expr, err))
			continue
		}
		nm := cs.Callee + ": " + cs.Expr
		if cs.Ord > 0 {
			nm = fmt.Sprintf("#%d %s", cs.Ord, nm)
		}
		c.addObl("site", nm, s.Pos(), st.pc, t)
		// assert-then-assume: the statement is proved (or reported) on its own, later obligations
		// may rely on it
		c.addFact(st.pc, t)
	}
}

func (c *VC) siteHitsAdd(cs CallSiteDir) {
	if c.siteHits == nil {
		c.siteHits = map[string]int{}
	}
	c.siteHits[fmt.Sprintf("%d %s: %s", cs.Ord, cs.Callee, cs.Expr)]++
}

// instantiateLemma: `[cond ==>] lemma_X(args)` evaluated in state st: the lemma's requires become
// obligations (under cond), its ensures facts.
func (c *VC) instantiateLemma(st *State, lm string, pos token.Pos, where string) {
	fr := c.cur()
	hs := st
	if i := strings.Index(lm, "==>"); i >= 0 {
		g, err := c.evalDirective(st, strings.TrimSpace(lm[:i]), pos)
		if err != nil {
			c.prog.errors = append(c.prog.errors, fmt.Sprintf("CONTRACT-STALE %s %s lemma %q: %v", fr.fi.Name, where, lm, err))
			return
		}
		hs = st.clone()
		hs.pc = mkAnd(st.pc, g)
		lm = strings.TrimSpace(lm[i+3:])
	}
	e, err := c.prog.checkExprAt(fr.fi.Pkg, pos, lm)
	if err != nil {
		c.prog.errors = append(c.prog.errors, fmt.Sprintf("CONTRACT-STALE %s %s lemma %q: %v", fr.fi.Name, where, lm, err))
		return
	}
	if call, ok := e.(*ast.CallExpr); ok {
		c.ghost++
		c.mathInts++
		c.allowLemma = true
		c.evalCall(hs, call)
		c.allowLemma = false
		c.mathInts--
		c.ghost--
	}
}
