package main

// Replaying a solver counterexample against the real code: inputs are rebuilt
// from the model and the real function is executed with the violated clause
// evaluated as Go (contracts are Go), via `go test -overlay` (nothing is
// written into /repo).

import (
	"bytes"
	"context"
	"encoding/json"
	"fmt"
	"go/ast"
	"go/printer"
	"go/types"
	"math/big"
	"os"
	"os/exec"
	"path/filepath"
	"regexp"
	"strings"
	"time"
)

type replayResult struct {
	Property     string            `json:"property"`
	Obligation   string            `json:"obligation"`
	Kind         string            `json:"kind"`
	Clause       string            `json:"clause"`
	Function     string            `json:"function"`
	At           string            `json:"at"`
	SolverStatus string            `json:"solver_status"`
	Solver       string            `json:"solver"`
	Inputs       map[string]string `json:"inputs,omitempty"`
	SolverOutput string            `json:"solver_output,omitempty"`
	TestSource   string            `json:"test_source,omitempty"`
	TestCmd      string            `json:"test_cmd,omitempty"`
	TestOutput   string            `json:"test_output,omitempty"`
	Reproduced   bool              `json:"reproduced"`
	Note         string            `json:"note"`
}

const replayBytes = 48

type rvReq struct {
	name string
	term *Term
}

func parseSMTValue(s string) (*big.Int, bool, bool) {
	s = strings.TrimSpace(s)
	switch {
	case s == "true":
		return nil, true, true
	case s == "false":
		return nil, false, true
	case strings.HasPrefix(s, "#x"):
		v, ok := new(big.Int).SetString(s[2:], 16)
		return v, false, ok
	case strings.HasPrefix(s, "#b"):
		v, ok := new(big.Int).SetString(s[2:], 2)
		return v, false, ok
	case strings.HasPrefix(s, "(_ bv"):
		f := strings.Fields(s[5:])
		v, ok := new(big.Int).SetString(f[0], 10)
		return v, false, ok
	case strings.HasPrefix(s, "(-"):
		v, ok := new(big.Int).SetString(strings.TrimSpace(strings.Trim(s[2:], "() ")), 10)
		if ok {
			v.Neg(v)
		}
		return v, false, ok
	}
	v, ok := new(big.Int).SetString(s, 10)
	return v, false, ok
}

var rvLine = regexp.MustCompile(`\(\s*(rv_\d+)\s+((?:\([^()]*\))|(?:[^()\s]+))\s*\)`)

func (c *VC) modelValues(o *Obligation, dir string, reqs []rvReq, small []*Term) (map[string]string, string) {
	if len(small) > 0 {
		// prefer a small counterexample: first ask with all lengths bounded
		vals, out := c.modelValuesX(o, dir, reqs, small)
		if len(vals) > 0 {
			return vals, out
		}
	}
	return c.modelValuesX(o, dir, reqs, nil)
}

func (c *VC) modelValuesX(o *Obligation, dir string, reqs []rvReq, small []*Term) (map[string]string, string) {
	var extra []*Term
	for _, r := range reqs {
		extra = append(extra, r.term)
	}
	q := c.queryX(o, false, extra)
	q = strings.TrimSuffix(q, "(check-sat)\n")
	var sb strings.Builder
	sb.WriteString(q)
	var names []string
	for i, r := range reqs {
		n := fmt.Sprintf("rv_%d", i)
		names = append(names, n)
		fmt.Fprintf(&sb, "(declare-const %s %s)\n(assert (= %s %s))\n", n, r.term.Sort.Name, n, r.term.String())
	}
	for _, t := range small {
		fmt.Fprintf(&sb, "(assert %s)\n", t.String())
	}
	sb.WriteString("(check-sat)\n(get-value (" + strings.Join(names, " ") + "))\n")
	file := filepath.Join(dir, "replay_"+fmt.Sprint(time.Now().UnixNano())+".smt2")
	os.WriteFile(file, []byte(sb.String()), 0o644)
	var out string
	for _, sp := range solvers {
		r := runSolver(context.Background(), sp, file, 20)
		if r.status == "sat" {
			out = r.out
			break
		}
	}
	vals := map[string]string{}
	for _, m := range rvLine.FindAllStringSubmatch(out, -1) {
		var idx int
		fmt.Sscanf(m[1], "rv_%d", &idx)
		if idx < len(reqs) {
			vals[reqs[idx].name] = m[2]
		}
	}
	return vals, out
}

func signedOf(v *big.Int, w int) *big.Int {
	_, hi := rangeOf(w, true)
	if v.Cmp(hi) > 0 {
		return new(big.Int).Sub(v, pow2(w))
	}
	return v
}

// buildInputs returns Go source declaring in0..inN from the model.
func (c *VC) buildInputs(o *Obligation, dir string, qual types.Qualifier) (decls []string, names []string, shown map[string]string, note string, raw string) {
	it := types.Typ[types.Int]
	var reqs []rvReq
	var small []*Term
	st := &State{env: map[types.Object]*Term{}, heaps: map[string]*Term{}, pc: tTrue, alloc: c.allocInit()}
	for i, in := range c.inputs {
		key := fmt.Sprintf("in%d", i)
		switch u := in.Type.Underlying().(type) {
		case *types.Basic:
			if u.Info()&types.IsString != 0 {
				reqs = append(reqs, rvReq{key + ".len", mkField(in.Term, "st_len")})
				small = append(small, c.cmp(tokLEQ, mkField(in.Term, "st_len"), c.idxLit(40), it))
				for k := 0; k < replayBytes; k++ {
					reqs = append(reqs, rvReq{fmt.Sprintf("%s[%d]", key, k), mkSelect(mkField(in.Term, "st_arr"), c.binop(tokADD, mkField(in.Term, "st_off"), c.idxLit(int64(k)), it))})
				}
			} else {
				reqs = append(reqs, rvReq{key, in.Term})
			}
		case *types.Pointer:
			reqs = append(reqs, rvReq{key, in.Term})
			if stt, ok := u.Elem().Underlying().(*types.Struct); ok {
				offs := c.fieldOffsets(stt)
				for fi := 0; fi < stt.NumFields(); fi++ {
					ft := stt.Field(fi).Type()
					if b, ok := ft.Underlying().(*types.Basic); ok && b.Info()&(types.IsInteger|types.IsBoolean) != 0 {
						reqs = append(reqs, rvReq{fmt.Sprintf("%s.%s", key, stt.Field(fi).Name()), c.loadAt(st, addrAdd(in.Term, offs[fi]), ft)})
					}
				}
			}
		case *types.Slice:
			reqs = append(reqs, rvReq{key + ".len", mkField(in.Term, "sl_len")}, rvReq{key + ".cap", mkField(in.Term, "sl_cap")}, rvReq{key + ".base", mkField(in.Term, "sl_base")})
			small = append(small, c.cmp(tokLEQ, mkField(in.Term, "sl_len"), c.idxLit(40), it), c.cmp(tokLEQ, mkField(in.Term, "sl_cap"), c.idxLit(64), it))
			if eb, ok := u.Elem().Underlying().(*types.Basic); ok && eb.Kind() == types.Uint8 {
				_, h := c.sliceHeap(st, types.Typ[types.Uint8])
				for k := 0; k < replayBytes; k++ {
					reqs = append(reqs, rvReq{fmt.Sprintf("%s[%d]", key, k), mkSelect(mkSelect(h, mkField(in.Term, "sl_base")), c.binop(tokADD, mkField(in.Term, "sl_off"), c.idxLit(int64(k)), it))})
				}
			}
		}
	}
	vals, raw := c.modelValues(o, dir, reqs, small)
	shown = map[string]string{}
	num := func(k string) (*big.Int, bool) {
		s, ok := vals[k]
		if !ok {
			return nil, false
		}
		v, _, ok := parseSMTValue(s)
		return v, ok && v != nil
	}
	for i, in := range c.inputs {
		key := fmt.Sprintf("in%d", i)
		names = append(names, key)
		ts := types.TypeString(in.Type, qual)
		switch u := in.Type.Underlying().(type) {
		case *types.Basic:
			switch {
			case u.Info()&types.IsString != 0:
				n, ok := num(key + ".len")
				ln := 0
				if ok && n.IsInt64() {
					ln = int(n.Int64())
				}
				if ln > 1<<16 {
					note += fmt.Sprintf("%s: model length %d capped; ", in.Name, ln)
					ln = 1 << 16
				}
				var bs []string
				for k := 0; k < ln; k++ {
					b := big.NewInt(0)
					if k < replayBytes {
						if v, ok := num(fmt.Sprintf("%s[%d]", key, k)); ok {
							b = v
						}
					}
					bs = append(bs, fmt.Sprintf("%d", new(big.Int).Mod(b, big.NewInt(256)).Int64()))
				}
				decls = append(decls, fmt.Sprintf("var %s %s = %s(string(verifPad([]byte{%s}, %d)))", key, ts, ts, strings.Join(trimList(bs, replayBytes), ","), ln))
				shown[in.Name] = fmt.Sprintf("string len=%d bytes=[%s]", ln, strings.Join(trimList(bs, replayBytes), " "))
			case u.Kind() == types.Bool:
				_, b, _ := parseSMTValue(vals[key])
				decls = append(decls, fmt.Sprintf("var %s %s = %v", key, ts, b))
				shown[in.Name] = fmt.Sprint(b)
			default:
				v, ok := num(key)
				if !ok {
					v = big.NewInt(0)
				}
				if w, signed, isInt := intInfo(u); isInt {
					v = new(big.Int).Mod(v, pow2(w))
					if signed {
						v = signedOf(v, w)
					}
					decls = append(decls, fmt.Sprintf("var %s %s = %s(%s)", key, ts, ts, v.String()))
				} else if fw, isF := isFloat(u); isF {
					if fw == 32 {
						decls = append(decls, fmt.Sprintf("var %s %s = %s(math.Float32frombits(%s))", key, ts, ts, v.String()))
					} else {
						decls = append(decls, fmt.Sprintf("var %s %s = %s(math.Float64frombits(%s))", key, ts, ts, v.String()))
					}
				} else {
					decls = append(decls, fmt.Sprintf("var %s %s", key, ts))
				}
				shown[in.Name] = v.String()
			}
		case *types.Slice:
			eb, isByte := u.Elem().Underlying().(*types.Basic)
			if !isByte || eb.Kind() != types.Uint8 {
				decls = append(decls, fmt.Sprintf("var %s %s", key, ts))
				note += in.Name + ": input of this type is not reconstructed (zero value used); "
				continue
			}
			ln, cp := 0, 0
			if n, ok := num(key + ".len"); ok && n.IsInt64() {
				ln = int(n.Int64())
			}
			if n, ok := num(key + ".cap"); ok && n.IsInt64() {
				cp = int(n.Int64())
			}
			base, _ := num(key + ".base")
			if ln > 1<<16 || cp > 1<<20 {
				note += fmt.Sprintf("%s: model len/cap %d/%d capped; ", in.Name, ln, cp)
				if ln > 1<<16 {
					ln = 1 << 16
				}
				if cp > 1<<20 {
					cp = 1 << 20
				}
			}
			if cp < ln {
				cp = ln
			}
			var bs []string
			for k := 0; k < ln && k < replayBytes; k++ {
				b := big.NewInt(0)
				if v, ok := num(fmt.Sprintf("%s[%d]", key, k)); ok {
					b = v
				}
				bs = append(bs, fmt.Sprintf("%d", new(big.Int).Mod(b, big.NewInt(256)).Int64()))
			}
			if base != nil && base.Sign() == 0 {
				decls = append(decls, fmt.Sprintf("var %s %s", key, ts))
				shown[in.Name] = "nil"
			} else {
				decls = append(decls, fmt.Sprintf("var %s %s = %s(verifMk([]byte{%s}, %d, %d))", key, ts, ts, strings.Join(bs, ","), ln, cp))
				shown[in.Name] = fmt.Sprintf("[]byte len=%d cap=%d bytes=[%s]", ln, cp, strings.Join(bs, " "))
			}
		case *types.Pointer:
			stt, isStruct := u.Elem().Underlying().(*types.Struct)
			addr, okA := num(key)
			if !isStruct {
				decls = append(decls, fmt.Sprintf("var %s %s", key, ts))
				note += in.Name + ": input of this type is not reconstructed (zero value used); "
				continue
			}
			if okA && addr.Sign() == 0 {
				decls = append(decls, fmt.Sprintf("var %s %s // nil", key, ts))
				shown[in.Name] = "nil"
				continue
			}
			var fs []string
			for fi := 0; fi < stt.NumFields(); fi++ {
				f := stt.Field(fi)
				b, ok := f.Type().Underlying().(*types.Basic)
				if !ok || b.Info()&(types.IsInteger|types.IsBoolean) == 0 {
					continue
				}
				fts := types.TypeString(f.Type(), qual)
				if b.Info()&types.IsBoolean != 0 {
					_, bv, _ := parseSMTValue(vals[fmt.Sprintf("%s.%s", key, f.Name())])
					fs = append(fs, fmt.Sprintf("%s: %v", f.Name(), bv))
					continue
				}
				v, ok := num(fmt.Sprintf("%s.%s", key, f.Name()))
				if !ok {
					v = big.NewInt(0)
				}
				w, signed, _ := intInfo(b)
				v = new(big.Int).Mod(v, pow2(w))
				if signed {
					v = signedOf(v, w)
				}
				fs = append(fs, fmt.Sprintf("%s: %s(%s)", f.Name(), fts, v.String()))
			}
			es := types.TypeString(u.Elem(), qual)
			decls = append(decls, fmt.Sprintf("var %s %s = &%s{%s}", key, ts, es, strings.Join(fs, ", ")))
			shown[in.Name] = fmt.Sprintf("&%s{%s}", es, strings.Join(fs, ", "))
		default:
			decls = append(decls, fmt.Sprintf("var %s %s", key, ts))
			note += in.Name + ": input of this type is not reconstructed (zero value used); "
		}
	}
	return
}

func trimList(xs []string, n int) []string {
	if len(xs) > n {
		return xs[:n]
	}
	return xs
}

func nodeText(prog *Prog, n ast.Node) string {
	var buf bytes.Buffer
	printer.Fprint(&buf, prog.fset, n)
	return buf.String()
}

func replayObligation(prog *Prog, c *VC, o *Obligation, dir, repo string) *replayResult {
	rep := &replayResult{Obligation: o.Name, Kind: o.Kind, Clause: o.Text, Function: c.fn.Name, At: o.Pos, SolverStatus: o.Status, Solver: o.Solver}
	if o.Status == "sat" {
		replayRun(prog, c, o, dir, repo, rep, false)
		if rep.Reproduced {
			return rep
		}
	} else {
		rep.SolverOutput = trunc(o.Model, 2000)
		rep.Note = fmt.Sprintf("obligation not discharged (solver status %s on all back ends); no model to replay; ", o.Status)
		if o.Status == "error" {
			rep.Note += "solver error: " + trunc(o.Model, 400) + "; "
		}
	}
	// fallback: the violated clause is evaluated on the real code over a seeded sweep of boundary inputs
	rep.Note += "fallback input sweep: "
	replayRun(prog, c, o, dir, repo, rep, true)
	return rep
}

func replayRun(prog *Prog, c *VC, o *Obligation, dir, repo string, rep *replayResult, sweep bool) {
	fi := c.fn
	pkg := fi.Pkg
	imports := map[string]string{}
	qual := func(p *types.Package) string {
		if p == pkg.Types {
			return ""
		}
		imports[p.Path()] = p.Name()
		return p.Name()
	}
	var decls, names []string
	if sweep {
		var ok bool
		decls, names, ok = c.sweepDecls(qual)
		if !ok {
			rep.Note += "not attempted (an input type is not generated)"
			return
		}
	} else {
		var shown map[string]string
		var note, raw string
		decls, names, shown, note, raw = c.buildInputs(o, dir, qual)
		rep.Inputs = shown
		rep.SolverOutput = trunc(raw, 1500)
		rep.Note = note
	}

	var body strings.Builder
	sig := fi.Obj.Type().(*types.Signature)
	callExpr := ""
	args := names
	if sig.Recv() != nil {
		callExpr = fmt.Sprintf("%s.%s(%s)", names[0], fi.Obj.Name(), strings.Join(names[1:], ", "))
	} else {
		callExpr = fmt.Sprintf("%s(%s)", fi.Obj.Name(), strings.Join(args, ", "))
	}
	if sig.Variadic() && len(names) > 0 {
		callExpr = strings.TrimSuffix(callExpr, ")") + "...)"
	}
	var resNames []string
	for i := 0; i < sig.Results().Len(); i++ {
		resNames = append(resNames, fmt.Sprintf("res%d", i))
	}
	clause := o.Text
	if i := strings.Index(clause, " @return"); i >= 0 {
		clause = clause[:i]
	}
	K := fi.Contract
	closure := func(onlyRequires bool) string {
		// closure over (params..., results...) with the contract body restricted to requires (+ the target clause)
		if K == nil {
			return ""
		}
		ks := K.Obj.Type().(*types.Signature)
		var ps []string
		for i := 0; i < ks.Params().Len(); i++ {
			p := ks.Params().At(i)
			n := p.Name()
			if n == "" || n == "_" {
				n = fmt.Sprintf("p%d", i)
			}
			ps = append(ps, n+" "+types.TypeString(p.Type(), qual))
		}
		for i := 0; i < ks.Results().Len(); i++ {
			r := ks.Results().At(i)
			ps = append(ps, r.Name()+" "+types.TypeString(r.Type(), qual))
		}
		var sb strings.Builder
		sb.WriteString("func(" + strings.Join(ps, ", ") + ") {\n")
		for i := 0; i < ks.Params().Len(); i++ {
			if n := ks.Params().At(i).Name(); n != "" && n != "_" {
				sb.WriteString("_ = " + n + "\n")
			}
		}
		for i := 0; i < ks.Results().Len(); i++ {
			sb.WriteString("_ = " + ks.Results().At(i).Name() + "\n")
		}
		for _, s := range K.Decl.Body.List {
			if _, ok := s.(*ast.ReturnStmt); ok {
				continue
			}
			if es, ok := s.(*ast.ExprStmt); ok {
				if call, ok := es.X.(*ast.CallExpr); ok {
					if id, ok := call.Fun.(*ast.Ident); ok {
						switch {
						case id.Name == "requires" || id.Name == "domain":
							sb.WriteString(nodeText(prog, s) + "\n")
							continue
						case id.Name == "ensures" || id.Name == "ensuresGoal":
							if !onlyRequires && exprText(prog.fset, call.Args[0]) == clause {
								sb.WriteString(nodeText(prog, s) + "\n")
							}
							continue
						case strings.HasPrefix(id.Name, "modifies"):
							continue
						}
					}
				}
			}
			if !onlyRequires {
				sb.WriteString(nodeText(prog, s) + "\n")
			}
		}
		sb.WriteString("}")
		return sb.String()
	}
	zeroRes := func() string {
		var zs []string
		for i := 0; i < sig.Results().Len(); i++ {
			zs = append(zs, fmt.Sprintf("*new(%s)", types.TypeString(sig.Results().At(i).Type(), qual)))
		}
		return strings.Join(zs, ", ")
	}
	switch {
	case fi.Kind == "lemma":
		fmt.Fprintf(&body, "\tverifPhase = \"lemma\"\n\t%s\n", callExpr)
	case strings.HasPrefix(o.Kind, "panic/"):
		fmt.Fprintf(&body, "\tverifPhase = \"pre\"\n")
		if K != nil {
			a := append(append([]string{}, names...), strings.Split(zeroRes(), ", ")...)
			if sig.Results().Len() == 0 {
				a = names
			}
			fmt.Fprintf(&body, "\t%s(%s)\n", closure(true), strings.Join(a, ", "))
		}
		fmt.Fprintf(&body, "\tverifPhase = \"run\"\n\t%s\n", callExpr)
	default:
		if K == nil {
			rep.Note += "no contract function to evaluate at run time; "
			return
		}
		fmt.Fprintf(&body, "\tverifPhase = \"pre\"\n")
		a := names
		if sig.Results().Len() > 0 {
			a = append(append([]string{}, names...), strings.Split(zeroRes(), ", ")...)
		}
		fmt.Fprintf(&body, "\t%s(%s)\n", closure(true), strings.Join(a, ", "))
		// old(e) over byte-slice parameters reads a snapshot taken before the call (the function may
		// overwrite its inputs in place)
		oldNames := map[string]string{}
		if K != nil {
			ks := K.Obj.Type().(*types.Signature)
			for i := 0; i < ks.Params().Len() && i < len(names); i++ {
				pv := ks.Params().At(i)
				if sl, ok := pv.Type().Underlying().(*types.Slice); ok {
					if bt, ok := sl.Elem().Underlying().(*types.Basic); ok && bt.Kind() == types.Uint8 && pv.Name() != "" && pv.Name() != "_" {
						sn := "verifOld_" + pv.Name()
						oldNames[pv.Name()] = sn
						fmt.Fprintf(&body, "\tvar %s []byte\n\tif %s != nil {\n\t\t%s = append(make([]byte, 0, cap(%s)), %s[:cap(%s)]...)[:len(%s)]\n\t}\n\t_ = %s\n", sn, names[i], sn, names[i], names[i], names[i], names[i], sn)
					}
				}
			}
		}
		postClosure := rewriteOld(closure(false), oldNames)
		fmt.Fprintf(&body, "\tverifPhase = \"run\"\n")
		if len(resNames) > 0 {
			fmt.Fprintf(&body, "\t%s := %s\n", strings.Join(resNames, ", "), callExpr)
		} else {
			fmt.Fprintf(&body, "\t%s\n", callExpr)
		}
		fmt.Fprintf(&body, "\tverifPhase = \"post\"\n")
		fmt.Fprintf(&body, "\t%s(%s)\n", postClosure, strings.Join(append(append([]string{}, names...), resNames...), ", "))
	}
	var src strings.Builder
	src.WriteString("//go:build verif\n\npackage " + pkg.Types.Name() + "\n\nimport (\n\t\"fmt\"\n\t\"strings\"\n\t\"testing\"\n")
	if sweep {
		src.WriteString("\t\"math/rand\"\n")
	}
	needMath := false
	for _, d := range decls {
		if strings.Contains(d, "math.Float") {
			needMath = true
		}
	}
	bodyS := body.String()
	// packages the clause text itself mentions (e.g. io.ErrUnexpectedEOF): take them from the import
	// list of the ghost file that holds the contract
	if fi.Contract != nil {
		for f := range prog.fileOf {
			if f.Pos() <= fi.Contract.Decl.Pos() && fi.Contract.Decl.Pos() < f.End() {
				for _, im := range f.Imports {
					path := strings.Trim(im.Path.Value, "\"")
					name := path[strings.LastIndex(path, "/")+1:]
					if im.Name != nil {
						name = im.Name.Name
					}
					if _, have := imports[path]; !have && name != "_" && name != "." && strings.Contains(bodyS, name+".") {
						imports[path] = name
					}
				}
			}
		}
	}
	for path, name := range imports {
		if path == "fmt" || path == "testing" || (path == "math" && needMath) {
			continue
		}
		fmt.Fprintf(&src, "\t%s %q\n", name, path)
	}
	if needMath {
		if _, ok := imports["math"]; !ok {
			src.WriteString("\t\"math\"\n")
		} else {
			src.WriteString("\t\"math\"\n")
		}
	}
	src.WriteString(")\n\nvar verifPhase string\n\n")
	src.WriteString("func verifMk(bs []byte, n, c int) []byte {\n\tb := make([]byte, n, c)\n\tcopy(b, bs)\n\treturn b\n}\n\n")
	src.WriteString("func verifPad(bs []byte, n int) []byte {\n\tb := make([]byte, n)\n\tcopy(b, bs)\n\treturn b\n}\n\nvar _ = verifPad\nvar _ = verifMk\nvar _ = strings.HasPrefix\n\n")
	if sweep {
		src.WriteString(sweepHelpers)
		src.WriteString("func TestVerifReplay(t *testing.T) {\n\tverifRng = rand.New(rand.NewSource(" + fmt.Sprint(replaySeed()) + "))\n\tfor verifIt := 0; verifIt < 4000; verifIt++ {\n\t\tif verifOne(verifIt) {\n\t\t\treturn\n\t\t}\n\t}\n\tfmt.Println(\"VERIF-REPLAY-HOLDS\")\n}\n\n")
		src.WriteString("func verifOne(verifIt int) (violated bool) {\n")
	} else {
		src.WriteString("func TestVerifReplay(t *testing.T) {\n")
	}
	for _, d := range decls {
		src.WriteString("\t" + d + "\n")
	}
	if sweep {
		src.WriteString("\tverifDesc := fmt.Sprintf(\"%#v\", []any{" + strings.Join(names, ", ") + "})\n")
		src.WriteString("\tdefer func() {\n\t\tif r := recover(); r != nil {\n\t\t\tif verifPhase != \"pre\" && (verifPhase == \"run\" || strings.HasPrefix(fmt.Sprint(r), \"verif:\")) {\n\t\t\t\tfmt.Printf(\"VERIF-REPLAY-VIOLATED phase=%s %v inputs=%s\\n\", verifPhase, r, verifDesc)\n\t\t\t\tviolated = true\n\t\t\t}\n\t\t}\n\t}()\n")
		src.WriteString(bodyS)
		src.WriteString("\treturn false\n}\n")
	}
	if !sweep {
	src.WriteString("\tdefer func() {\n\t\tif r := recover(); r != nil {\n\t\t\tif verifPhase == \"pre\" {\n\t\t\t\tfmt.Printf(\"VERIF-REPLAY-PRECONDITION %v\\n\", r)\n\t\t\t} else {\n\t\t\t\tfmt.Printf(\"VERIF-REPLAY-VIOLATED phase=%s %v\\n\", verifPhase, r)\n\t\t\t}\n\t\t}\n\t}()\n")
	src.WriteString(bodyS)
	src.WriteString("\tfmt.Println(\"VERIF-REPLAY-HOLDS\")\n}\n")
	}
	if sweep && rep.TestSource != "" {
		rep.TestSource += "\n// ---- fallback sweep ----\n" + src.String()
	} else {
		rep.TestSource = src.String()
	}

	// run through an overlay
	pkgDir := filepath.Dir(prog.fset.Position(fi.Decl.Pos()).Filename)
	if fi.Kind == "lemma" || fi.Ghost {
		pkgDir = filepath.Dir(prog.fset.Position(fi.Decl.Pos()).Filename)
	}
	tfile := filepath.Join(dir, fmt.Sprintf("replay_%d_test.go", time.Now().UnixNano()))
	os.WriteFile(tfile, []byte(rep.TestSource), 0o644)
	ov := map[string]any{"Replace": map[string]string{filepath.Join(pkgDir, "zz_verif_replay_test.go"): tfile}}
	ovData, _ := json.Marshal(ov)
	ovFile := filepath.Join(dir, fmt.Sprintf("ov_%d.json", time.Now().UnixNano()))
	os.WriteFile(ovFile, ovData, 0o644)
	ctx, cancel := context.WithTimeout(context.Background(), 180*time.Second)
	defer cancel()
	sh := fmt.Sprintf("ulimit -v 8000000; cd %s && go test -tags verif -overlay %s -vet=off -count=1 -v -timeout 60s -run '^TestVerifReplay$' .", pkgDir, ovFile)
	cmd := exec.CommandContext(ctx, "bash", "-c", sh)
	cmd.Env = append(os.Environ(), "GOFLAGS=-mod=mod", "GOPROXY=off", "GOSUMDB=off", "GOTOOLCHAIN=local")
	out, _ := cmd.CombinedOutput()
	if sweep && rep.TestOutput != "" {
		rep.TestOutput += "\n---- fallback sweep ----\n"
	}
	prevOut := rep.TestOutput
	rep.TestCmd = "go test -tags verif -overlay <ov.json> -vet=off -count=1 -timeout 60s -run '^TestVerifReplay$' . (in " + strings.TrimPrefix(pkgDir, repo+"/") + ")"
	rep.TestOutput = prevOut + trunc(string(out), 3000)
	switch {
	case strings.Contains(string(out), "VERIF-REPLAY-VIOLATED phase=run") && strings.Contains(rep.Note, "is not reconstructed"):
		// a run-time panic of the function under test on inputs that could not be built from the
		// model (nil interfaces, zero structs) says nothing about the obligation
		rep.Note += "the function panicked on inputs the replay could not reconstruct (not counted as a reproduction)"
	case strings.Contains(string(out), "VERIF-REPLAY-VIOLATED"):
		rep.Reproduced = true
		rep.Note += "counterexample reproduced on the real code"
	case strings.Contains(string(out), "VERIF-REPLAY-PRECONDITION"):
		rep.Note += "model does not satisfy the precondition at run time (spurious model)"
	case strings.Contains(string(out), "VERIF-REPLAY-SPECERROR"):
		rep.Note += "the contract clause itself panicked when evaluated as Go on the model's inputs (not counted as a reproduction)"
	case strings.Contains(string(out), "VERIF-REPLAY-HOLDS"):
		rep.Note += "clause holds at run time for the model's inputs (model not reproducible: abstraction artefact or heap-only difference)"
	default:
		rep.Note += "replay did not run to completion"
	}
}

func replaySeed() int64 {
	var s int64 = 1
	fmt.Sscanf(os.Getenv("VERIF_SEED"), "%d", &s)
	return s
}

const sweepHelpers = `
var verifRng *rand.Rand

const verifAlpha = "0123456789.-+eEs {}[]:,"

var verifInts = []int64{0, 1, 2, -1, -2, 127, 128, 129, 255, 256, 16383, 16384, 1<<21 - 1, 1 << 21, 1<<28 - 1, 1 << 28, 1<<31 - 1, 1 << 31, -(1 << 31), 1<<32 - 1, 1 << 32, 1 << 35, 1<<63 - 1, -(1 << 63), 999999999, 1000000000, 9223372036, 9223372037, 315576000000, 315576000001}
var verifLens = []int{0, 1, 2, 3, 9, 10, 11, 127, 128, 129, 130, 255, 256, 16383, 16384, 16385}

func verifInt(it int) int64 {
	if verifRng.Intn(3) == 0 {
		return int64(verifRng.Uint64())
	}
	v := verifInts[verifRng.Intn(len(verifInts))]
	if verifRng.Intn(4) == 0 {
		v = -v
	}
	return v
}

func verifBytes(it int) []byte {
	n := verifLens[verifRng.Intn(len(verifLens))]
	if it < len(verifLens) {
		n = verifLens[it]
	}
	b := make([]byte, n, n+verifRng.Intn(3)*8)
	switch verifRng.Intn(4) {
	case 0:
		for i := range b {
			b[i] = byte(verifRng.Intn(256))
		}
	case 1:
		for i := range b {
			b[i] = 0x80 | byte(verifRng.Intn(128))
		}
	case 2:
		for i := range b {
			b[i] = verifAlpha[verifRng.Intn(len(verifAlpha))]
		}
	default:
		for i := range b {
			b[i] = byte(verifRng.Intn(4))
		}
	}
	return b
}
`

// sweepDecls declares the inputs of the function under test from the sweep generators.
func (c *VC) sweepDecls(qual types.Qualifier) (decls, names []string, ok bool) {
	for i, in := range c.inputs {
		key := fmt.Sprintf("in%d", i)
		names = append(names, key)
		ts := types.TypeString(in.Type, qual)
		switch u := in.Type.Underlying().(type) {
		case *types.Basic:
			switch {
			case u.Info()&types.IsString != 0:
				decls = append(decls, fmt.Sprintf("var %s %s = %s(string(verifBytes(verifIt)))", key, ts, ts))
			case u.Kind() == types.Bool:
				decls = append(decls, fmt.Sprintf("var %s %s = verifRng.Intn(2) == 0", key, ts))
			case u.Info()&types.IsInteger != 0:
				decls = append(decls, fmt.Sprintf("var %s %s = %s(verifInt(verifIt))", key, ts, ts))
			default:
				return nil, nil, false
			}
		case *types.Slice:
			eb, isB := u.Elem().Underlying().(*types.Basic)
			if !isB || eb.Kind() != types.Uint8 {
				return nil, nil, false
			}
			decls = append(decls, fmt.Sprintf("var %s %s = %s(verifBytes(verifIt))", key, ts, ts))
		case *types.Pointer:
			stt, isS := u.Elem().Underlying().(*types.Struct)
			if !isS {
				return nil, nil, false
			}
			var fs []string
			for fi := 0; fi < stt.NumFields(); fi++ {
				f := stt.Field(fi)
				if b, ok := f.Type().Underlying().(*types.Basic); ok && b.Info()&types.IsInteger != 0 {
					fs = append(fs, fmt.Sprintf("%s: %s(verifInt(verifIt))", f.Name(), types.TypeString(f.Type(), qual)))
				}
			}
			decls = append(decls, fmt.Sprintf("var %s %s = &%s{%s}", key, ts, types.TypeString(u.Elem(), qual), strings.Join(fs, ", ")))
		default:
			return nil, nil, false
		}
	}
	return decls, names, true
}

// rewriteOld replaces, inside every old(...) of the closure text, the byte-slice parameter names by
// the names of their pre-call snapshots.
func rewriteOld(text string, names map[string]string) string {
	if len(names) == 0 {
		return text
	}
	var out strings.Builder
	for {
		i := strings.Index(text, "old(")
		if i < 0 || (i > 0 && (isIdentByte(text[i-1]))) {
			if i < 0 {
				out.WriteString(text)
				return out.String()
			}
			out.WriteString(text[:i+4])
			text = text[i+4:]
			continue
		}
		// find the matching parenthesis
		depth, j := 0, i+3
		for ; j < len(text); j++ {
			if text[j] == '(' {
				depth++
			} else if text[j] == ')' {
				depth--
				if depth == 0 {
					break
				}
			}
		}
		if j >= len(text) {
			out.WriteString(text)
			return out.String()
		}
		inner := text[i+4 : j]
		for n, sn := range names {
			inner = replaceIdent(inner, n, sn)
		}
		out.WriteString(text[:i+4])
		out.WriteString(inner)
		out.WriteString(")")
		text = text[j+1:]
	}
}

func isIdentByte(b byte) bool {
	return b == '_' || b >= '0' && b <= '9' || b >= 'a' && b <= 'z' || b >= 'A' && b <= 'Z'
}

func replaceIdent(s, name, with string) string {
	var out strings.Builder
	for i := 0; i < len(s); {
		if strings.HasPrefix(s[i:], name) && (i == 0 || !isIdentByte(s[i-1]) && s[i-1] != '.') && (i+len(name) == len(s) || !isIdentByte(s[i+len(name)])) {
			out.WriteString(with)
			i += len(name)
			continue
		}
		out.WriteByte(s[i])
		i++
	}
	return out.String()
}
