package main

// Byte-addressed, field-granular memory (Burstall-Bornat component model).
//
// An address is an Int (byte address, 0 = nil). Memory is a family of heaps, one
// per *leaf sort* (integers by width, bool, string header, slice header,
// pointer-like), each an (Array Int sort). A struct at address a has its field f
// at a + offsetof(f); an array has element i at a + i*sizeof(elem). Sizes and
// offsets come from go/types for the gc/amd64 layout, i.e. they are the offsets
// the runtime tables (unsafe.Offsetof / reflect) use. Interior pointers (&p.f,
// &a[i]) and pointer arithmetic over uintptr are therefore ordinary integer
// arithmetic. Soundness assumption ("type-safe use of unsafe"): a cell is only
// ever accessed at one leaf sort.

import (
	"fmt"
	"go/token"
	"go/types"
)

func (c *VC) sizes() types.Sizes {
	if c.pkg != nil && c.pkg.TypesSizes != nil {
		return c.pkg.TypesSizes
	}
	return types.SizesFor("gc", "amd64")
}

func (c *VC) sizeof(t types.Type) int64 {
	if _, ok := t.(*types.TypeParam); ok {
		return 8
	}
	n := c.sizes().Sizeof(t)
	if n <= 0 {
		return 1 // zero-sized objects still get a distinct address
	}
	return n
}

func (c *VC) fieldOffsets(st *types.Struct) []int64 {
	var fs []*types.Var
	for i := 0; i < st.NumFields(); i++ {
		fs = append(fs, st.Field(i))
	}
	if len(fs) == 0 {
		return nil
	}
	return c.sizes().Offsetsof(fs)
}

func addrAdd(a *Term, k int64) *Term {
	if k == 0 {
		return a
	}
	if a.Val != nil {
		return intLit64(a.Val.Int64() + k)
	}
	if a.Op == "+" && len(a.Args) == 2 && a.Args[1].Val != nil {
		return mk("+", sortInt, a.Args[0], intLit64(a.Args[1].Val.Int64()+k))
	}
	return mk("+", sortInt, a, intLit64(k))
}

func (c *VC) isLeaf(t types.Type) bool {
	switch t.Underlying().(type) {
	case *types.Struct, *types.Array:
		return false
	}
	return true
}

const maxFlatArray = 16

// loadAt reads a value of type t stored at address addr.
func (c *VC) loadAt(st *State, addr *Term, t types.Type) *Term {
	switch u := t.Underlying().(type) {
	case *types.Struct:
		s := c.sortOf(t)
		offs := c.fieldOffsets(u)
		args := make([]*Term, u.NumFields())
		for i := range args {
			args[i] = c.loadAt(st, addrAdd(addr, offs[i]), u.Field(i).Type())
		}
		return mkCtor(s, args...)
	case *types.Array:
		s := c.sortOf(t)
		if u.Len() > maxFlatArray {
			// large in-memory arrays are only ever accessed element-wise; a whole-array load is abstracted
			r := c.fresh("bigarr", s)
			return r
		}
		arr := mk(fmt.Sprintf("(as const %s)", s.Name), s, c.zero(u.Elem()))
		es := c.sizeof(u.Elem())
		for i := int64(0); i < u.Len(); i++ {
			arr = mkStore(arr, c.idxLit(i), c.loadAt(st, addrAdd(addr, i*es), u.Elem()))
		}
		return arr
	}
	_, h := c.ptrHeap(st, t)
	return c.sel(h, addr)
}

// storeAt writes value v of type t at address addr (with frame obligations per leaf cell).
func (c *VC) storeAt(st *State, addr *Term, t types.Type, v *Term, pos token.Pos, text string) {
	switch u := t.Underlying().(type) {
	case *types.Struct:
		s := c.sortOf(t)
		offs := c.fieldOffsets(u)
		for i := 0; i < u.NumFields(); i++ {
			c.storeAt(st, addrAdd(addr, offs[i]), u.Field(i).Type(), mkField(v, s.Fields[i].Name), pos, text)
		}
		return
	case *types.Array:
		if u.Len() > maxFlatArray {
			c.unsupportedf(pos, "whole-array store of %d elements", u.Len())
			return
		}
		es := c.sizeof(u.Elem())
		for i := int64(0); i < u.Len(); i++ {
			c.storeAt(st, addrAdd(addr, i*es), u.Elem(), mkSelect(v, c.idxLit(i)), pos, text)
		}
		return
	}
	hn, h := c.ptrHeap(st, t)
	if _, isSlice := t.Underlying().(*types.Slice); isSlice {
		c.guardSliceValue(st, v, t, c.sel(h, addr), pos, text)
	}
	c.checkWrite(st, hn, addr, nil, nil, pos, text)
	nh := mkStore(h, addr, v)
	if nh.size() > 40 {
		nh = c.name(hn, nh)
	}
	st.heaps[hn] = nh
}

// leafHeaps lists the pointer-heap names (with sorts) that an object of type t occupies.
func (c *VC) leafHeaps(t types.Type, out map[string]*Sort, depth int) {
	if depth > 6 {
		return
	}
	switch u := t.Underlying().(type) {
	case *types.Struct:
		for i := 0; i < u.NumFields(); i++ {
			c.leafHeaps(u.Field(i).Type(), out, depth+1)
		}
		return
	case *types.Array:
		c.leafHeaps(u.Elem(), out, depth+1)
		return
	}
	out[c.ptrHeapNameT(t)] = c.sortOf(t)
}

// allocObj allocates a fresh object of type t holding v and returns its address.
func (c *VC) allocObj(st *State, t types.Type, v *Term) *Term {
	addr := st.alloc
	st.alloc = c.name("alloc", mk("+", sortInt, st.alloc, intLit64(c.sizeof(t))))
	c.storeAt(st, addr, t, v, token.NoPos, "allocation")
	return addr
}

// place is an lvalue: either a register value (val != nil) reached by a field/element path from a
// local variable, or a memory location (addr != nil).
type place struct {
	addr *Term
	typ  types.Type
}
