package main

// Finite-map model for Go maps with integer keys: a map value is a handle (Int, 0 = nil);
// its domain and values live in per-key-sort heaps. Maps with other key types stay opaque.

import (
	"fmt"
	"go/token"
	"go/types"
)

func (c *VC) mapModelled(t types.Type) (*types.Map, bool) {
	m, ok := t.Underlying().(*types.Map)
	if !ok {
		return nil, false
	}
	if _, _, isInt := intInfo(m.Key()); !isInt {
		// string keys: the key is an uninterpreted function of the string value (strkey), so two
		// syntactically different string terms may or may not be the same key - an over-approximation
		if b, isB := m.Key().Underlying().(*types.Basic); !isB || b.Info()&types.IsString == 0 {
			return nil, false
		}
	}
	return m, true
}

// mapKeySort: the SMT sort of the keys (strings are mapped to integers by strkey).
func (c *VC) mapKeySort(m *types.Map) *Sort {
	if b, ok := m.Key().Underlying().(*types.Basic); ok && b.Info()&types.IsString != 0 {
		return sortInt
	}
	return c.sortOf(m.Key())
}

// mapKey converts an evaluated key expression to the key sort.
func (c *VC) mapKey(m *types.Map, k *Term) *Term {
	if b, ok := m.Key().Underlying().(*types.Basic); ok && b.Info()&types.IsString != 0 {
		return c.uf("strkey", sortInt, k)
	}
	return k
}

func (c *VC) mapDomHeap(st *State, m *types.Map) (string, *Term) {
	ks := c.mapKeySort(m)
	n := "HMd_" + sanitize(ks.Name)
	if h, ok := st.heaps[n]; ok {
		return n, h
	}
	return n, c.heapDefault(st, n, arraySort(sortInt, arraySort(ks, sortBool)))
}

func (c *VC) mapValHeap(st *State, m *types.Map) (string, *Term) {
	ks, vs := c.mapKeySort(m), c.sortOf(m.Elem())
	n := "HMv_" + sanitize(ks.Name) + "_" + sanitize(vs.Name)
	if h, ok := st.heaps[n]; ok {
		return n, h
	}
	return n, c.heapDefault(st, n, arraySort(sortInt, arraySort(ks, vs)))
}

func (c *VC) mapRead(st *State, m *types.Map, h, k *Term) (v, ok *Term) {
	_, dom := c.mapDomHeap(st, m)
	_, val := c.mapValHeap(st, m)
	ok = mkAnd(mkNot(mkEq(h, intLit64(0))), c.sel(c.sel(dom, h), k))
	v = mkIte(ok, c.sel(c.sel(val, h), k), c.zero(m.Elem()))
	return
}

func (c *VC) mapWrite(st *State, m *types.Map, h, k, v *Term, pos token.Pos, text string) {
	c.panicObl(st, "nil-map", text, pos, mkNot(mkEq(h, intLit64(0))))
	if c.monotoneMapStore && v.Sort == sortBool {
		// `monotone-map x`: an entry of the boolean map x that is true stays true
		old, _ := c.mapRead(st, m, h, k)
		c.addObl("own/monotone-map", text+": a true entry is not lowered", pos, st.pc, mkImplies(old, v))
	}
	dn, dom := c.mapDomHeap(st, m)
	vn, val := c.mapValHeap(st, m)
	c.checkWrite(st, dn, h, nil, nil, pos, text)
	st.heaps[dn] = c.name(dn, mkStore(dom, h, mkStore(c.sel(dom, h), k, tTrue)))
	st.heaps[vn] = c.name(vn, mkStore(val, h, mkStore(c.sel(val, h), k, v)))
}

func (c *VC) mapDelete(st *State, m *types.Map, h, k *Term, pos token.Pos, text string) {
	dn, dom := c.mapDomHeap(st, m)
	isNil := mkEq(h, intLit64(0))
	sub := st.clone()
	sub.pc = mkAnd(st.pc, mkNot(isNil))
	c.checkWrite(sub, dn, h, nil, nil, pos, text)
	nd := mkStore(dom, h, mkStore(c.sel(dom, h), k, tFalse))
	st.heaps[dn] = c.name(dn, mkIte(isNil, dom, nd))
}

func (c *VC) mapMake(st *State, m *types.Map) *Term {
	h := st.alloc
	st.alloc = c.name("alloc", mk("+", sortInt, st.alloc, intLit64(1)))
	dn, dom := c.mapDomHeap(st, m)
	rs := arraySort(c.mapKeySort(m), sortBool)
	st.heaps[dn] = c.name(dn, mkStore(dom, h, mk(fmt.Sprintf("(as const %s)", rs.Name), rs, tFalse)))
	return h
}

// mapLen: cardinality of the domain as an uninterpreted function of the domain row (0 for nil).
func (c *VC) mapLen(st *State, m *types.Map, h *Term) *Term {
	_, dom := c.mapDomHeap(st, m)
	card := c.uf("card_"+sanitize(c.mapKeySort(m).Name), c.idxSort(), c.sel(dom, h))
	it := types.Typ[types.Int]
	c.addFact(tTrue, mkAnd(c.cmp(token.GEQ, card, c.idxLit(0), it), c.cmp(token.LEQ, card, c.numLit(pow2(maxLenBits), it), it)))
	return mkIte(mkEq(h, intLit64(0)), c.idxLit(0), card)
}
