#!/bin/bash
# confirm_seed.sh <worktree>: re-check an agent's seeded change inside its scratch worktree:
# builds, demo fails with the change and passes without it, the changed packages' own tests pass.
export GOFLAGS=-mod=mod GOPROXY=off GOSUMDB=off GOTOOLCHAIN=local
WT="$1"; cd "$WT" || exit 2
DP=$(cat _out/demo_path.txt); DEMO=_out/$(basename "$DP")
[ -f "$DEMO" ] || DEMO=$(ls _out/*_test.go | head -1)
PKGS=$(grep '^+++ b/' _out/patch.diff | sed 's|+++ b/||' | xargs -n1 dirname | sort -u | sed 's|^|./|')
git apply _out/patch.diff || { echo "APPLY FAILED"; exit 1; }
go build ./... || { echo "BUILD FAILED"; git apply -R _out/patch.diff; exit 1; }
echo "== existing tests of changed packages (with change):"; go test $PKGS 2>&1 | tail -5
cp "$DEMO" "$DP"
echo "== demo WITH change (expect FAIL):"; go test ./$(dirname "$DP") -run 'Seeded|Demo|Zz|ZZ' -count=1 2>&1 | tail -4
git apply -R _out/patch.diff
echo "== demo WITHOUT change (expect ok):"; go test ./$(dirname "$DP") -run 'Seeded|Demo|Zz|ZZ' -count=1 2>&1 | tail -3
rm -f "$DP"; git status --short | grep -v verif_ | head
