#!/bin/bash
# run_seed.sh <seed-id> [tier]: apply /verif/seeded/<seed-id>/patch.diff to /repo's working tree, run the
# check of the seed's property (meta.json "property"), and restore the tree. /repo must be clean.
set -u
SID="$1"; TIER="${2:-quick}"; D=/verif/seeded/$SID
[ -f "$D/patch.diff" ] || { echo "no such seed: $SID"; exit 2; }
[ -z "$(git -C /repo status --short)" ] || { echo "/repo has uncommitted changes"; exit 2; }
PROP=$(python3 -c "import json;print(json.load(open('$D/meta.json'))['property'])")
git -C /repo apply "$D/patch.diff" || exit 2
# the check rewrites evidence/<prop>.json: keep the unchanged tree's record, a seeded run is not evidence
cp /verif/evidence/$PROP.json /tmp/evidence_$PROP.keep 2>/dev/null
/verif/check "$PROP" --tier "$TIER"; rc=$?
git -C /repo checkout -- .
[ -f /tmp/evidence_$PROP.keep ] && mv /tmp/evidence_$PROP.keep /verif/evidence/$PROP.json
echo "seed=$SID property=$PROP exit=$rc (1 = reported, as expected for a caught seed)"
exit 0
