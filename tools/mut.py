#!/usr/bin/env python3
"""mut.py <prop> <repo-relative-file> <old> <new> [<old> <new> ...]: apply each textual mutation in turn
to /repo, run the property's contracts (govc check on its packages), print failing obligations, restore."""
import subprocess, sys, json
prop, path = sys.argv[1], '/repo/' + sys.argv[2]
pairs = list(zip(sys.argv[3::2], sys.argv[4::2]))
orig = open(path).read()
try:
    for a, b in pairs:
        if a not in orig:
            print("MUT not applicable:", a); continue
        open(path, 'w').write(orig.replace(a, b, 1))
        bld = subprocess.run("cd /repo && GOFLAGS=-mod=mod GOPROXY=off go build ./... 2>&1 | tail -3", shell=True, capture_output=True, text=True)
        r = subprocess.run(f"cd /verif && ./bin/govc prop -id {prop} 2>&1 | grep -v '^KNOWN' | tail -6", shell=True, capture_output=True, text=True)
        print("MUT", repr(a), "->", repr(b), bld.stdout.strip()); print(r.stdout)
finally:
    open(path, 'w').write(orig)
