#!/bin/bash
# run every claimed check (quick tier) on the current tree; print one line each
cd /verif
ids=$(python3 -c "import json;print(' '.join(sorted(json.load(open('props.json'))['claimed'])))")
rc=0
for id in $ids; do
  out=$(./check $id --tier ${1:-quick} 2>&1); r=$?
  echo "$out" | grep -E "^(property=|VIOLATION|KNOWN-FINDING|CONTRACT-STALE|UNDECIDED)" | cut -c1-200
  [ $r -ne 0 ] && rc=1
done
for id in $ids; do python3-vt - <<PY
import json,jsonschema
jsonschema.validate(json.load(open('evidence/$id.json')),json.load(open('/root/.vp/EVIDENCE.schema.json')))
PY
done
exit $rc
