#!/bin/bash
# regress_seeds.sh: apply every seeded change in turn, run the check that is expected to report it
# Set VERIF_NO_RETRY=1 to skip the long-budget second chance (faster; an obligation that merely timed out then also counts as reported),
# SKIP_FILE=<earlier log> to skip seeds already listed there.
# (meta.json "check_property", default "property") and print one line per seed. /repo must be clean.
cd /verif
[ -z "$(git -C /repo status --short)" ] || { echo "/repo has uncommitted changes"; exit 2; }
for D in seeded/*/; do
  SID=$(basename "$D")
  [ -n "${SKIP_FILE:-}" ] && grep -q " $SID " "$SKIP_FILE" 2>/dev/null && continue
  read PROP EXPECT <<<"$(python3 - "$D/meta.json" <<'PY'
import json,sys
d=json.load(open(sys.argv[1])); det=d.get('detected_by','')
missed = det.startswith('MISSED') and 'MISSED at first' not in det
print(d.get('check_property', d['property']), 'missed' if missed else 'caught')
PY
)"
  git -C /repo apply "/verif/$D/patch.diff" 2>/dev/null || { echo "$SID: PATCH DOES NOT APPLY"; continue; }
  out=$(./check "$PROP" --tier quick 2>&1); rc=$?
  git -C /repo checkout -- .
  v=$(echo "$out" | grep -c "^VIOLATION")
  res="silent"; [ $rc -eq 1 ] && [ "$v" -gt 0 ] && res="reported"
  flag="ok"; { [ "$EXPECT" = caught ] && [ "$res" != reported ]; } && flag="REGRESSION"; { [ "$EXPECT" = missed ] && [ "$res" = reported ]; } && flag="NOW-CAUGHT"
  echo "$flag $SID check=$PROP expect=$EXPECT result=$res violations=$v"
done
