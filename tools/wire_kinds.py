"""The table of scalar kinds shared by the contract generators of the fast path (internal/impl)
and of the reflection path (proto): both sets of contracts are instantiated from this one table,
written from the protobuf encoding document."""

# kind -> (go type, accessor, wire class, enc expr of v (uint64 / bits), dec expr of wire value w)
KINDS = {
    'Bool':     ('bool',    'Bool',    'varint', 'specBoolEnc({v})',                 '({w} != 0)'),
    'Int32':    ('int32',   'Int32',   'varint', 'uint64(int64({v}))',               'int32({w})'),
    'Sint32':   ('int32',   'Int32',   'varint', 'protowire.SpecZigZag(int64({v}))', 'specUnZigZag32({w})'),
    'Uint32':   ('uint32',  'Uint32',  'varint', 'uint64({v})',                      'uint32({w})'),
    'Int64':    ('int64',   'Int64',   'varint', 'uint64({v})',                      'int64({w})'),
    'Sint64':   ('int64',   'Int64',   'varint', 'protowire.SpecZigZag({v})',        'specUnZigZag64({w})'),
    'Uint64':   ('uint64',  'Uint64',  'varint', '{v}',                              '{w}'),
    'Sfixed32': ('int32',   'Int32',   'fixed32', 'uint32({v})',                     'int32({w})'),
    'Fixed32':  ('uint32',  'Uint32',  'fixed32', '{v}',                             '{w}'),
    'Float':    ('float32', 'Float32', 'fixed32', 'math.Float32bits({v})',           'math.Float32frombits({w})'),
    'Sfixed64': ('int64',   'Int64',   'fixed64', 'uint64({v})',                     'int64({w})'),
    'Fixed64':  ('uint64',  'Uint64',  'fixed64', '{v}',                             '{w}'),
    'Double':   ('float64', 'Float64', 'fixed64', 'math.Float64bits({v})',           'math.Float64frombits({w})'),
}
WIRETYPE = {'varint': 'protowire.VarintType', 'fixed32': 'protowire.Fixed32Type', 'fixed64': 'protowire.Fixed64Type', 'bytes': 'protowire.BytesType'}
