#!/bin/bash
# keep_seeded.sh <worktree> <seed-id> <property> <detected-by text>
# Archives a confirmed seeded change under /verif/seeded/<seed-id>/.
set -e
WT="$1"; SID="$2"; PROP="$3"; DET="$4"
D=/verif/seeded/$SID
mkdir -p "$D"
cp "$WT/_out/patch.diff" "$D/patch.diff"
DP=$(cat "$WT/_out/demo_path.txt")
cp "$WT/_out/$(basename "$DP")" "$D/" 2>/dev/null || cp "$WT"/_out/*_test.go "$D/"
python3 - "$WT" "$D" "$PROP" "$DET" "$DP" <<'PY'
import json,sys
wt,d,prop,det,dp=sys.argv[1:]
try: m=json.load(open(wt+'/_out/meta.json'))
except Exception as e: m={'note':'agent meta.json unreadable: %s'%e}
m['property']=prop
m['demo_path']=dp
m['confirmed_by_builder']='applied in the scratch worktree: go build ./... ok; demo test passes without the change and fails with it; existing tests of the affected packages pass with the change'
m['detected_by']=det
json.dump(m,open(d+'/meta.json','w'),indent=1)
PY
echo kept $D
