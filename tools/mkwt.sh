#!/bin/bash
# mkwt.sh <tag> <property-id>: scratch worktree /tmp/wt_<tag> for a seeding agent (no contracts, property text only)
set -e
TAG="$1"; PID="$2"; WT=/tmp/wt_$TAG
git -C /repo worktree add --detach "$WT" HEAD >/dev/null 2>&1
find "$WT" -name 'verif_*.go' -delete
mkdir -p "$WT/_out"
python3 - "$PID" "$WT" <<'PY'
import json,sys
pid,wt=sys.argv[1:]
for l in open('/verif/properties.jsonl'):
    d=json.loads(l)
    if d['id']==pid:
        json.dump(d,open(wt+'/_out/property.json','w'),indent=1)
PY
echo "$WT"
